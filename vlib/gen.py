"""Unit generator: template (Verus text + //@ directives) + /repo source  ->  one Verus file.

Directives (each line starts with `//@`):

  //@include <path relative to /verif>              textual include of another template
  //@typedef <file> <struct|enum|type|const> <Name> [as-is]   copy a type definition (attributes and
                                                    doc comments dropped, fields made `pub`)
  //@macro <file> <name>                            copy a macro_rules! definition
  //@fn <file> <Type>::<name> | <Trait for Type>::<name> | ::<name>
  //@block <file> <Type>::<name> loop <n> as <signature text>
        the n-th loop statement of the named fn is lifted (verbatim) into a new fn with the
        given signature (rewrite R5)
     followed by clause lines until `//@end`:
  //@ default [TAGS]                 tags for implicit obligations (overflow, unwrap, index, hints)
  //@ attr <text>                    attribute line put before the fn
  //@ result <name>                  name of the result (default res)
  //@ sig <text>                     replacement for the parameter list text `(...)` is NOT allowed;
  //@ requires [TAGS] <expr>
  //@ ensures [TAGS] <expr>
  //@ decreases <expr>
  //@ loop <n> invariant|invariant_except_break|ensures|decreases [TAGS] <expr>
  //@ at-start <ghost stmt>
  //@ before-loop <n> <ghost stmt>
  //@ loop-head <n> <ghost stmt>
  //@ loop-tail <n> <ghost stmt>
  //@ after-loop <n> <ghost stmt>
  //@ before "<anchor>" <ghost stmt>     anchor = exact source text of a token run, unique in the body
  //@ after "<anchor>" <ghost stmt>
  //@ noreturn                          the function never returns (vacuity probe uses loop-head 1)
  //@ feature benchmark                 emit this fn only when the benchmark feature is resolved ON
  //@ | <continuation of the previous clause>
  //@end

Nothing executable is ever injected: ghost statements are checked to start with `proof {`,
`let ghost`, `assert(`, `assert forall`, `broadcast use` or `reveal(`.
"""
import hashlib
import json
import os
import re
import difflib

from rustlex import SourceFile, lex, match_close, find_loops, LexError, skip_generics

VERIF = os.path.dirname(os.path.dirname(os.path.abspath(__file__)))


class GenError(Exception):
    """Lost anchor / unsupported shape: the affected function is undecided, never a violation."""

    def __init__(self, msg, fn=None):
        Exception.__init__(self, msg)
        self.fn = fn


TAG_RE = re.compile(r'^\[([A-Za-z0-9 ,*]*)\]\s*')
GHOST_OK = re.compile(r'^(proof\s*\{|let ghost |assert\s*\(|assert forall|broadcast use |reveal\()')


class Clause:
    def __init__(self, kind, tags, text, loop=None, anchor=None):
        self.kind = kind
        self.tags = tags
        self.text = text
        self.loop = loop
        self.anchor = anchor
        self.cid = None


class FnSpec:
    def __init__(self, mode, file, target, lift=None):
        self.mode = mode          # fn | block
        self.file = file
        self.target = target      # (type, trait, name)
        self.lift = lift          # (loop n, signature text)
        self.clauses = []
        self.default = []
        self.attrs = []
        self.result = 'res'
        self.noreturn = False
        self.feature = None
        self.substs = []
        self.unreachable = []
        self.line = 0

    @property
    def qname(self):
        ty, tr, name = self.target
        base = (ty + '::' if ty else '') + name
        if self.mode == 'block':
            m = re.search(r'fn\s+(\w+)', self.lift[1])
            m2 = re.match(r'^impl\s+(\w+)\s*:', self.lift[1])
            return (m2.group(1) + '::' if m2 else '') + m.group(1)
        if tr:
            return '<%s as %s>::%s' % (ty, tr, name)
        return base


def parse_tags(s):
    m = TAG_RE.match(s)
    if not m:
        return [], s
    tags = [t for t in re.split(r'[ ,]+', m.group(1).strip()) if t]
    return tags, s[m.end():]


def parse_target(s):
    # "Core::make_vote" | "Hash for Block::digest" | "::free_fn"
    m = re.match(r'^(?:(\w+)\s+for\s+)?(\w*)::(\w+)$', s.strip())
    if not m:
        raise GenError('bad fn target %r' % s)
    trait, ty, name = m.group(1), m.group(2) or None, m.group(3)
    return (ty, trait, name)


def template_sha(lines):
    return hashlib.sha256('\n'.join(lines).encode()).hexdigest()


def load_derived_tags(template_path, lines):
    """contracts/derived_tags.json: {unit: {"template_sha256": .., "tags": {cid: [PID..]}}}, written by bin/deptags (clause
    ablation on the pinned tree).  Ignored when the template changed since it was computed."""
    p = os.path.join(VERIF, 'contracts', 'derived_tags.json')
    if not os.path.exists(p):
        return {}
    try:
        with open(p) as f:
            d = json.load(f)
    except Exception:
        return {}
    ent = d.get(os.path.basename(template_path)[:-4])
    if not ent or ent.get('template_sha256') != template_sha(lines):
        return {}
    out = dict(ent.get('tags', {}))
    out['@dependants'] = ent.get('dependants', {})
    return out


def read_template(path, seen=None):
    """Return list of lines with includes expanded."""
    seen = seen or set()
    out = []
    with open(path) as f:
        for ln in f.read().split('\n'):
            m = re.match(r'^\s*//@include\s+(\S+)', ln)
            if m:
                p = os.path.join(VERIF, m.group(1))
                if p in seen:
                    continue
                seen.add(p)
                out.append('// ---- include %s' % m.group(1))
                out.extend(read_template(p, seen))
                out.append('// ---- end include %s' % m.group(1))
            else:
                out.append(ln)
    return out


def parse_template(lines):
    """Split into segments: ('text', [lines]) | ('typedef', file, kw, name) | ('macro', file, name) | ('fn', FnSpec)."""
    segs = []
    cur = []
    i = 0
    n = len(lines)
    while i < n:
        ln = lines[i]
        s = ln.strip()
        if s.startswith('//@typedef'):
            if cur:
                segs.append(('text', cur))
                cur = []
            parts = s.split()
            segs.append(('typedef', parts[1], parts[2], parts[3], parts[4:] ))
            i += 1
            continue
        if s.startswith('//@macro'):
            if cur:
                segs.append(('text', cur))
                cur = []
            parts = s.split()
            segs.append(('macro', parts[1], parts[2]))
            i += 1
            continue
        if s.startswith('//@fn') or s.startswith('//@block') or s.startswith('//@closure'):
            if cur:
                segs.append(('text', cur))
                cur = []
            if s.startswith('//@fn'):
                m = re.match(r'^//@fn\s+(\S+)\s+(.*)$', s)
                spec = FnSpec('fn', m.group(1), parse_target(m.group(2)))
            elif s.startswith('//@closure'):
                m = re.match(r'^//@closure\s+(\S+)\s+(.*?)\s+(closure)\s+(\d+)\s+as\s+(.*)$', s)
                spec = FnSpec('block', m.group(1), parse_target(m.group(2)), (int(m.group(4)), m.group(5), m.group(3)))
            else:
                m = re.match(r'^//@block\s+(\S+)\s+(.*?)\s+(loop|match|spawn)\s+(\d+)\s+as\s+(.*)$', s)
                spec = FnSpec('block', m.group(1), parse_target(m.group(2)), (int(m.group(4)), m.group(5), m.group(3)))
            spec.line = i + 1
            i += 1
            last = None
            while i < n:
                s2 = lines[i].strip()
                if s2 == '//@end':
                    i += 1
                    break
                if not s2.startswith('//@'):
                    if s2 == '' or s2.startswith('//'):
                        i += 1
                        continue
                    raise GenError('template line %d: missing //@end' % (i + 1))
                body = s2[3:].strip()
                i += 1
                if body.startswith('|'):
                    if last is None:
                        raise GenError('continuation without clause at line %d' % i)
                    last.text += '\n' + body[1:].rstrip()
                    continue
                kw, _, rest = body.partition(' ')
                rest = rest.strip()
                if kw == 'default':
                    spec.default, _ = parse_tags(rest)
                    last = None
                elif kw == 'attr':
                    spec.attrs.append(rest)
                    last = None
                elif kw == 'result':
                    spec.result = rest
                    last = None
                elif kw == 'subst':
                    m = re.match(r'^"((?:[^"\\]|\\.)*)"\s*=>\s*"((?:[^"\\]|\\.)*)"$', rest)
                    if not m:
                        raise GenError('bad subst at line %d' % i)
                    spec.substs.append((m.group(1).replace('\\"', '"'), m.group(2).replace('\\"', '"')))
                    last = None
                elif kw == 'unreachable':
                    m = re.match(r'^"((?:[^"\\]|\\.)*)"\s*(.*)$', rest)
                    spec.unreachable.append((m.group(1).replace('\\"', '"'), m.group(2)))
                    last = None
                elif kw == 'noreturn':
                    spec.noreturn = True
                    last = None
                elif kw == 'feature':
                    spec.feature = rest
                    last = None
                elif kw in ('requires', 'ensures', 'decreases'):
                    tags, txt = parse_tags(rest)
                    last = Clause(kw, tags, txt)
                    spec.clauses.append(last)
                elif kw == 'loop':
                    m = re.match(r'^(\d+)\s+(invariant_except_break|invariant|ensures|decreases)\s*(.*)$', rest, re.S)
                    if not m:
                        raise GenError('bad loop clause at line %d' % i)
                    tags, txt = parse_tags(m.group(3))
                    last = Clause('loop_' + m.group(2), tags, txt, loop=int(m.group(1)))
                    spec.clauses.append(last)
                elif kw in ('before-loop', 'loop-head', 'loop-tail', 'after-loop'):
                    m = re.match(r'^(\d+)\s+(.*)$', rest, re.S)
                    htags, htxt = parse_tags(m.group(2))
                    last = Clause(kw, htags, htxt, loop=int(m.group(1)))
                    spec.clauses.append(last)
                elif kw in ('at-start', 'at-end'):
                    htags, htxt = parse_tags(rest)
                    last = Clause(kw, htags, htxt)
                    spec.clauses.append(last)
                elif kw in ('before', 'after'):
                    m = re.match(r'^"((?:[^"\\]|\\.)*)"\s+(.*)$', rest, re.S)
                    if not m:
                        raise GenError('bad anchor clause at line %d' % i)
                    anchor = m.group(1).replace('\\"', '"')
                    htags, htxt = parse_tags(m.group(2))
                    last = Clause(kw, htags, htxt, anchor=anchor)
                    spec.clauses.append(last)
                else:
                    raise GenError('unknown clause kind %r at line %d' % (kw, i))
            # clause ids
            counters = {}
            for c in spec.clauses:
                key = c.kind + (str(c.loop) if c.loop is not None else '')
                counters[key] = counters.get(key, 0) + 1
                c.cid = '%s#%s.%d' % (spec.qname, key, counters[key])
            segs.append(('fn', spec))
            continue
        cur.append(ln)
        i += 1
    if cur:
        segs.append(('text', cur))
    return segs


# ----------------------------------------------------------------------------------------------
# edits
# ----------------------------------------------------------------------------------------------

class Edit:
    def __init__(self, a, b, repl=None, func=None, rule=''):
        self.a = a
        self.b = b
        self.repl = repl
        self.func = func
        self.rule = rule


def apply_edits(src, a, b, edits):
    """Transform src[a:b] applying the (possibly nested) edits inside it."""
    inside = [e for e in edits if e.a >= a and e.b <= b and not (e.a == a and e.b == b and e.func is None and e.repl is None)]
    # top-level = not strictly contained in another edit of `inside`
    inside.sort(key=lambda e: (e.a, -(e.b - e.a), 0 if e.func else 1))
    top = []
    cur_end = a
    for e in inside:
        if e.a == e.b:
            # insertion: top-level unless strictly inside a replaced range
            if top and top[-1].b > e.a and top[-1].a < e.a and top[-1].b != top[-1].a:
                continue
            top.append(e)
            continue
        if e.a < cur_end:
            # nested in or overlapping previous top-level edit
            prev = [t for t in top if t.a != t.b and t.a <= e.a and e.b <= t.b]
            if prev:
                continue
            raise GenError('overlapping edits (%s) at %d' % (e.rule, e.a))
        top.append(e)
        cur_end = e.b
    out = []
    pos = a
    top.sort(key=lambda e: (e.a, 0 if e.a == e.b else 1))
    for e in top:
        out.append(src[pos:e.a])
        if e.func is not None:
            rest = [x for x in edits if x is not e]
            out.append(e.func(lambda x, y: apply_edits(src, x, y, rest)))
        else:
            out.append(e.repl)
        pos = max(pos, e.b)
    out.append(src[pos:b])
    return ''.join(out)


LOG_MACROS = ('debug', 'info', 'warn', 'error', 'trace')

# R4: std idioms without a vstd specification -> vx_ helpers with assumed contracts.
# A blank in a pattern stands for optional whitespace; (?P<x>..) groups are re-used in the replacement.
_E = r'[A-Za-z_][A-Za-z0-9_]*(?:\s*\.\s*[A-Za-z_][A-Za-z0-9_]*)*'      # simple path expr a.b.c
R4_RULES = [
    ('R4-iter-max', r'\*\s*(?P<e>%s\s*\(\s*\))\s*\.\s*iter\s*\(\s*\)\s*\.\s*max\s*\(\s*\)' % _E,
     r'vx_iter_max(&\g<e>)', 'deref'),
    ('R4-sum-stake', r'(?P<e>%s)\s*\.\s*values\s*\(\s*\)\s*\.\s*map\s*\(\s*\|\s*x\s*\|\s*x\s*\.\s*stake\s*\)\s*\.\s*sum\s*\(\s*\)' % _E,
     r'vx_sum_stake(&\g<e>)', None),
    ('R4-first32', r'Digest\s*\(\s*(?P<e>[A-Za-z_][A-Za-z0-9_:]*\s*(?:\(\s*&?\s*\w+\s*\)\s*)?(?:\.\s*finalize\s*\(\s*\)\s*)?)\.\s*as_slice\s*\(\s*\)\s*\[\s*\.\.\s*32\s*\]\s*\.\s*try_into\s*\(\s*\)\s*\.\s*unwrap\s*\(\s*\)\s*,?\s*\)',
     r'Digest(vx_first32(\g<e>))', None),
    ('R4-to-le-bytes', r'(?P<e>%s)\s*\.\s*to_le_bytes\s*\(\s*\)' % _E, r'vx_to_le_bytes(\g<e>)', None),
    ('R4-keys-collect', r'(?P<e>%s)\s*\.\s*keys\s*\(\s*\)\s*\.\s*cloned\s*\(\s*\)\s*\.\s*collect\s*\(\s*\)' % _E,
     r'vx_keys_cloned(&\g<e>)', None),
    ('R4-sort', r'(?P<e>\b[a-z_][A-Za-z0-9_]*)\s*\.\s*sort\s*\(\s*\)', r'vx_sort(&mut \g<e>)', None),
    ('R4-addr-collect', r'\.\s*into_iter\s*\(\s*\)\s*\.\s*map\s*\(\s*\|\s*\(\s*_\s*,\s*x\s*\)\s*\|\s*x\s*\)\s*\.\s*collect\s*\(\s*\)',
     r'.vx_second_collect()', None),
    ('R4-chain3', r'(?P<a>\w+)\s*\.\s*payload\s*\.\s*iter\(\)\s*\.\s*cloned\(\)\s*\.\s*chain\(\s*(?P<b>\w+)\.payload\.iter\(\)\.cloned\(\)\s*\)\s*\.\s*chain\(\s*(?P<c>\w+)\.payload\.iter\(\)\.cloned\(\)\s*\)\s*\.\s*collect\(\)',
     r'vx_chain3_collect(&\g<a>.payload, &\g<b>.payload, &\g<c>.payload)', None),
    ('R4-pair-with-clone', r'(?P<e>\b\w+)\s*\.\s*iter\(\)\s*\.\s*cloned\(\)\s*\.\s*map\(\s*\|x\|\s*\(x,\s*(?P<s>\w+)\.clone\(\)\)\s*\)\s*\.\s*collect\(\)', r'vx_pair_with_clone(&\g<e>, &\g<s>)', None),
    ('R4-retain-round-gt', r'(?P<e>\b\w+)\s*\.\s*retain\(\s*\|_,\s*\(r,\s*_\)\|\s*r\s*>\s*&mut\s+(?P<r>\w+)\s*\)', r'vx_retain_round_gt(&mut \g<e>, \g<r>)', None),
    ('R4-now-millis', r'SystemTime\s*::\s*now\(\)\s*\.\s*duration_since\(\s*UNIX_EPOCH\s*\)\s*\.\s*expect\(\s*"[^"]*"\s*\)\s*\.\s*as_millis\(\)', r'vx_now_millis()', None),
    ('R4-shuffle', r'(?P<e>\b\w+)\s*\.\s*shuffle\(\s*&mut\s+(?P<r>[\w\.]+)\s*\)', r'vx_shuffle(&mut \g<e>, &mut \g<r>)', None),
    ('R4-map-const', r'\.\s*map\s*\(\s*\|\s*_\s*\|\s*(?P<v>Some\s*\(\s*\w+\s*\)|\w+)\s*\)', r'.vx_map_const(\g<v>)', None),
    ('R11-eta', r'\.\s*map_err\s*\(\s*(?P<c>[A-Z]\w*::[A-Z]\w*)\s*\)', r'.map_err(|e| \g<c>(e))', None),
    ('R4-map-unwrap', r'(?P<e>\b\w+)\s*\.\s*map\s*\(\s*\|\s*x\s*\|\s*x\s*\.\s*unwrap\s*\(\s*\)\s*\)', r'vx_map_unwrap(\g<e>)', None),
    ('R4-oneshot-await', r'\b(?P<x>receiver|wait_for)\s*\.\s*await', r'\g<x>.vx_recv().await', None),
    ('R4-get-prefix', r'\.\s*get\s*\(\s*\.\.\s*(?P<n>\d+)\s*\)', r'.vx_get_prefix(\g<n>)', None),
    ('R4-range-index', r'(?P<amp>&\s*)?(?P<e>\b[a-z_][A-Za-z0-9_]*(?:\.[a-z0-9_]+)*)\s*\[\s*(?P<lo>\d*)\s*\.\.\s*(?P<hi>\d*)\s*\]', None, 'range'),
    ('R4-try-into', r'\.\s*try_into\s*\(\s*\)', r'.vx_try_into()', None),
    ('R3-wild-closure', r'\|\s*_\s*\|', r'|_e|', None),
    ('R4-concat2', r'\[\s*(?P<a>[\w\.]+)\s*,\s*(?P<b>[\w\.]+)\s*\]\s*\.\s*concat\s*\(\s*\)', r'vx_concat2(\g<a>, \g<b>)', None),
    ('R4-drain-all', r'(?P<e>%s)\s*\.\s*drain\s*\(\s*\.\.\s*\)\s*\.\s*collect\s*\(\s*\)' % _E, r'vx_drain_all(&mut \g<e>)', None),
    ('R4-unzip', r'(?P<e>%s(?:\s*\([^()]*\))?)\s*\.\s*iter\s*\(\s*\)\s*\.\s*cloned\s*\(\s*\)\s*\.\s*unzip\s*\(\s*\)' % _E, r'vx_unzip(&\g<e>)', None),
    ('R4-zip-collect', r'(?P<a>\b\w+)\s*\.\s*into_iter\s*\(\s*\)\s*\.\s*zip\s*\(\s*(?P<b>\w+)\s*\.\s*into_iter\s*\(\s*\)\s*\)\s*\.\s*collect\s*\(\s*\)', r'vx_zip_collect(\g<a>, \g<b>)', None),
    ('R4-pin', r'tokio\s*::\s*pin\s*!\s*\(\s*(?P<x>\w+)\s*\)\s*;', r'let mut \g<x> = vx_pin(\g<x>);', None),
    ('R4-deadline', r'Instant\s*::\s*now\s*\(\s*\)\s*\+\s*Duration\s*::\s*from_millis\s*\(\s*(?P<e>[^()]*)\s*\)', r'vx_deadline(\g<e>)', None),
    ('R4-bench-sample-ids', r'self\s*\.\s*current_batch\s*\.\s*iter\s*\(\s*\)\s*\.\s*filter\s*\((?:[^;]*?)\)\s*\.\s*filter_map\s*\((?:[^;]*?)\)\s*\.\s*collect\s*\(\s*\)', r'vx_bench_sample_ids(&self.current_batch)', None),
    ('R4-retain-open', r'\.\s*retain\s*\(\s*\|\s*\(\s*_\s*,\s*handler\s*\)\s*(?::[^|]*)?\|\s*!\s*handler\s*\.\s*is_closed\s*\(\s*\)\s*\)', r'.vx_retain_open()', None),
    ('R4-from-be-bytes', r'u64\s*::\s*from_be_bytes\s*\(', r'vx_u64_from_be_bytes(', None),
    ('R4-drain-set', r'(?P<e>%s)\s*\.\s*drain\s*\(\s*\)\s*\.\s*collect\s*\(\s*\)' % _E, r'vx_drain_set(&mut \g<e>)', None),
    ('R4-stake-waiters-zip', r'(?P<a>\b\w+)\s*\.\s*into_iter\(\)\s*\.\s*zip\(\s*(?P<b>\w+)\s*\.\s*into_iter\(\)\s*\)\s*\.\s*map\(\s*\|\(name, handler\)\|\s*\{\s*let stake = self\.committee\.stake\(&name\);\s*Self::waiter\(handler, stake\)\s*\}\s*\)\s*\.\s*collect\(\)', r'vx_stake_waiters(\g<a>, \g<b>, &self.committee)', None),
    ('R4-stake-waiters-pairs', r'(?P<a>\b\w+)\s*\.\s*into_iter\(\)\s*\.\s*map\(\s*\|\(name, handler\)\|\s*\{\s*let stake = self\.committee\.stake\(&name\);\s*Self::waiter\(handler, stake\)\s*\}\s*\)\s*\.\s*collect\(\)', r'vx_stake_waiters_pairs(\g<a>, &self.committee)', None),
    ('R4-notify-reads', r'(?P<e>\b\w+)\s*\.\s*iter_mut\(\)\s*\.\s*map\(\s*\|\(x, y\)\|\s*y\.notify_read\(x\.to_vec\(\)\)\s*\)\s*\.\s*collect\(\)', r'vx_notify_reads(&mut \g<e>)', None),
    ('R4-dissemination', r'pending\s*\.\s*push\s*\(\s*async\s+move\s*\{.*?\}\s*\)\s*;(?=\s*pending_counter)', r'pending.push(vx_dissemination_future(wait_for_quorum));', 'dotall'),
    ('R4-retain-ge', r'\.\s*retain\s*\(\s*\|\s*k\s*,\s*_\s*\|\s*k\s*>=\s*(?P<r>\w+)\s*\)', r'.vx_retain_keys_ge(\g<r>)', None),
    ('R4-get-map-or-else-stake', r'(?P<e>%s)\s*\.\s*get\s*\(\s*(?P<k>\w+)\s*\)\s*\.\s*map_or_else\s*\(\s*\|\s*\|\s*0\s*,\s*\|\s*x\s*\|\s*x\s*\.\s*stake\s*\)' % _E,
     r'(match \g<e>.get(\g<k>) { None => 0, Some(x) => x.stake })', None),
    ('R4-get-map-field', r'(?P<e>%s)\s*\.\s*get\s*\(\s*(?P<k>\w+)\s*\)\s*\.\s*map\s*\(\s*\|\s*x\s*\|\s*x\s*\.\s*(?P<f>\w+)\s*\)' % _E,
     r'(match \g<e>.get(\g<k>) { None => None, Some(x) => Some(x.\g<f>) })', None),
]


def _fmt_ghost(text):
    return text


class FnEmitter:
    def __init__(self, spec, sf, benchmark, report):
        self.spec = spec
        self.sf = sf
        self.benchmark = benchmark
        self.report = report
        self.fired = []
        self.ablate = None

    def fire(self, rule, detail=''):
        self.fired.append((rule, detail))

    # ------------------------------------------------------------------
    def locate(self):
        ty, tr, name = self.spec.target
        item = self.sf.find_fn(ty, name, tr)
        if item is None:
            raise GenError('lost anchor: fn %s not found in %s' % (self.spec.qname, self.sf.path), self.spec.qname)
        return item

    def body_edits(self, a_tok, b_tok, loops_base=None):
        """Compute edits for the token range [a_tok, b_tok] (inclusive; normally the body braces).
        Returns list of Edit in source offsets."""
        sf = self.sf
        toks = sf.toks
        src = sf.src
        edits = []
        sub = toks[a_tok:b_tok + 1]
        base = a_tok
        spec = self.spec

        # --- D-c: #[cfg(feature = "benchmark")] resolution; other attributes on statements dropped
        i = a_tok
        while i <= b_tok:
            t = toks[i]
            if t.text == '#' and toks[i + 1].text == '[':
                close = match_close(toks, i + 1)
                attr_txt = src[t.start:toks[close].end]
                norm = re.sub(r'\s+', '', attr_txt)
                if norm == '#[cfg(feature="benchmark")]':
                    # the statement that follows
                    s_end = self.stmt_end(close + 1, b_tok)
                    if self.benchmark:
                        edits.append(Edit(t.start, toks[close].end, '', rule='D-c'))
                        self.fire('D-c', 'benchmark ON: attribute removed, statement kept')
                    else:
                        edits.append(Edit(t.start, toks[s_end].end, '', rule='D-c'))
                        self.fire('D-c', 'benchmark OFF: statement removed')
                        i = s_end + 1
                        continue
                else:
                    raise GenError('unsupported attribute in body: %s' % attr_txt, spec.qname)
                i = close + 1
                continue
            i += 1

        # --- D-b: logging macros -> ()
        for i in range(a_tok, b_tok):
            t = toks[i]
            if t.kind == 'ident' and t.text in LOG_MACROS and toks[i + 1].text == '!' and toks[i + 2].text == '(':
                if i > 0 and toks[i - 1].text in ('::', '.'):
                    continue
                c = match_close(toks, i + 2)
                # split top-level arguments; the first one is the format string
                args = []
                z = i + 3
                a_start = z
                while z < c:
                    if toks[z].text in ('(', '[', '{'):
                        z = match_close(toks, z)
                    elif toks[z].text == ',':
                        args.append((a_start, z - 1))
                        a_start = z + 1
                    z += 1
                if a_start <= c - 1:
                    args.append((a_start, c - 1))
                args = args[1:]
                spans = [(toks[a_].start, toks[b_].end) for (a_, b_) in args if a_ <= b_]

                def mk(T, spans=spans):
                    # the arguments are still evaluated by reference (as the formatting machinery does): keeps type
                    # inference and any panic site inside an argument expression
                    if not spans:
                        return '()'
                    return 'vx_log((' + ' '.join('&(%s),' % T(x, y) for (x, y) in spans) + '))'
                edits.append(Edit(t.start, toks[c].end, func=mk, rule='D-b'))
                self.fire('D-b', t.text + '!')

        # --- R1: bool &= / |=
        for i in range(a_tok, b_tok):
            t = toks[i]
            if t.kind == 'punct' and t.text in ('&=', '|='):
                lhs = toks[i - 1]
                if lhs.kind != 'ident' or toks[i - 2].text not in (';', '{', '}'):
                    raise GenError('R1: unsupported lhs of %s' % t.text, spec.qname)
                j = i + 1
                while toks[j].text != ';':
                    if toks[j].text in ('(', '[', '{'):
                        j = match_close(toks, j)
                    j += 1
                op = '&&' if t.text == '&=' else '||'
                a0, b0 = toks[i + 1].start, toks[j - 1].end
                name = lhs.text

                def mk(T, a0=a0, b0=b0, name=name, op=op):
                    return '{ let vx_t = %s; %s = %s %s vx_t; }' % (T(a0, b0), name, name, op)
                edits.append(Edit(lhs.start, toks[j].end, func=mk, rule='R1'))
                self.fire('R1', '%s %s' % (name, t.text))

        # --- R2: tokio::select!
        for i in range(a_tok, b_tok):
            t = toks[i]
            if t.kind == 'ident' and t.text == 'select' and toks[i + 1].text == '!' and toks[i - 1].text == '::' \
                    and toks[i - 2].text == 'tokio':
                o = i + 2
                c = match_close(toks, o)
                try:
                    arms = self.parse_select(o, c)
                except GenError as e_:
                    # left as is: either another rule replaces the enclosing statement, or Verus rejects the macro (=> quarantine)
                    self.fire('R2-skipped', str(e_))
                    continue
                start = toks[i - 2].start
                end = toks[c].end

                def mk(T, arms=arms):
                    parts = ['match vx_choice() {']
                    for n_, (pa, pb, fa, fb, ba, bb, fut_kind) in enumerate(arms):
                        sel = str(n_) if n_ < len(arms) - 1 else '_'
                        fut = T(fa, fb)
                        if fut_kind == 'mutref':
                            fut = 'vx_tick(%s)' % fut
                        pat = src[pa:pb]
                        body = T(ba, bb)
                        parts.append('    %s => match %s.await { %s => %s, #[allow(unreachable_patterns)] _ => vx_select_disabled() },'
                                     % (sel, fut, pat, body))
                    parts.append('}')
                    return '\n'.join(parts)
                edits.append(Edit(start, end, func=mk, rule='R2'))
                self.fire('R2', 'select! with %d arms' % len(arms))

        # --- R12: `if C { continue; }` as a direct statement of a `for` body -> `if !(C) { <rest of the body> }`
        #     (Verus: "for-loops do not yet support continue"); same control flow, no statement added or removed
        for (k12, o12, c12, _l12) in find_loops(sub):
            k12 += base; o12 += base; c12 += base
            if toks[k12].text != 'for':
                continue
            z = o12 + 1
            while z < c12:
                tz = toks[z]
                if tz.text in ('{', '(', '['):
                    z = match_close(toks, z) + 1
                    continue
                if tz.kind == 'ident' and tz.text == 'if' and toks[z - 1].text in ('{', '}', ';'):
                    # condition up to the block
                    y = z + 1
                    while toks[y].text != '{':
                        if toks[y].text in ('(', '['):
                            y = match_close(toks, y)
                        y += 1
                    yc = match_close(toks, y)
                    only_continue = (yc == y + 3 and toks[y + 1].text == 'continue' and toks[y + 2].text == ';')
                    has_else = toks[yc + 1].kind == 'ident' and toks[yc + 1].text == 'else'
                    if only_continue and not has_else:
                        cond = src[toks[z + 1].start:toks[y - 1].end]
                        edits.append(Edit(tz.start, toks[yc].end, 'if !(%s) {' % cond, rule='R12'))
                        edits.append(Edit(toks[c12].start, toks[c12].start, '} ', rule='R12'))
                        self.fire('R12', '`if %s { continue; }` in a for body -> guard around the rest of the body' % re.sub(r'\s+', ' ', cond))
                    z = yc + 1
                    continue
                z += 1

        # --- R6: let x = 'l: loop { .. break 'l E; .. };
        loops = find_loops(sub)
        # loops for which the template has no clause at all: nothing is known about them beyond the verifier's defaults, so a
        # proof failure in this function says "incomplete proof", not "violated" (a loop moved here from another function)
        with_clause = set(c_.loop for c_ in spec.clauses if c_.loop is not None)
        self.bare_loops = [n_ + 1 for n_ in range(len(loops)) if (n_ + 1) not in with_clause]
        for (k, o, c, label) in loops:
            k += base
            o += base
            c += base
            if label is None:
                continue
            label += base
            if not (toks[label - 1].text == '=' and toks[k].text == 'loop'):
                continue
            # find `let PAT =`
            j = label - 2
            pat_toks = []
            while toks[j].text != 'let':
                pat_toks.append(toks[j])
                j -= 1
                if j < a_tok:
                    raise GenError('R6: let not found', spec.qname)
            let_tok = toks[j]
            pat = src[toks[j + 1].start:toks[label - 2].end]
            lab = toks[label].text
            # breaks with value
            n_brk = 0
            m = o
            while m < c:
                if toks[m].kind == 'ident' and toks[m].text == 'break' and toks[m + 1].text == lab \
                        and toks[m + 2].text not in (';', ',', '}'):
                    e = m + 2
                    while toks[e].text not in (';', ',', '}'):
                        if toks[e].text in ('(', '[', '{'):
                            e = match_close(toks, e)
                        e += 1
                    va, vb = toks[m + 2].start, toks[e - 1].end

                    def mk(T, va=va, vb=vb, lab=lab):
                        return '{ vx_brk = Some(%s); break %s; }' % (T(va, vb), lab)
                    edits.append(Edit(toks[m].start, vb, func=mk, rule='R6'))
                    n_brk += 1
                    m = e
                    continue
                m += 1
            if n_brk == 0:
                continue
            edits.append(Edit(let_tok.start, toks[label].start, 'let mut vx_brk = None; ', rule='R6'))
            semi = c + 1
            if toks[semi].text != ';':
                raise GenError('R6: expected ; after loop', spec.qname)
            edits.append(Edit(toks[semi].start, toks[semi].end, ' let %s = vx_brk.unwrap();' % pat, rule='R6'))
            self.fire('R6', "%s %d breaks with value" % (lab, n_brk))
            self.r6_loops = getattr(self, 'r6_loops', set())
            self.r6_loops.add(k)

        # --- loops: clauses and ghost injections
        nloops = len(loops)
        by_loop = {}
        for cl in spec.clauses:
            if cl.loop is not None:
                if cl.loop < 1 or cl.loop > nloops:
                    raise GenError('lost anchor: loop %d of %s (body has %d loops)' % (cl.loop, spec.qname, nloops), spec.qname)
                by_loop.setdefault(cl.loop, []).append(cl)
        for n_, (k, o, c, label) in enumerate(loops, 1):
            k += base
            o += base
            c += base
            cls = by_loop.get(n_, [])
            r6 = k in getattr(self, 'r6_loops', set())
            groups = []
            for kind in ('loop_invariant_except_break', 'loop_invariant', 'loop_ensures', 'loop_decreases'):
                g = [x for x in cls if x.kind == kind]
                extra = []
                if r6 and kind == 'loop_invariant_except_break':
                    extra = ['vx_brk is None']
                if r6 and kind == 'loop_ensures':
                    extra = ['vx_brk is Some']
                if g or extra:
                    groups.append((kind[5:], g, extra))
            if groups:
                self.loop_clause_edits(edits, toks[o].start, groups)
            if toks[k].text == 'for' and (cls or r6):
                # name the iterator
                j = k + 1
                while not (toks[j].kind == 'ident' and toks[j].text == 'in'):
                    if toks[j].text in ('(', '['):
                        j = match_close(toks, j)
                    j += 1
                edits.append(Edit(toks[j].end, toks[j].end, ' vx_it%d:' % n_, rule='for-iter-name'))
            for cl in cls:
                if cl.kind == 'before-loop':
                    pos = toks[label + base].start if label is not None else toks[k].start
                    # if loop is the rhs of `let x =` (R6) put before the let
                    if r6:
                        j = k
                        while toks[j].text != 'let':
                            j -= 1
                        pos = toks[j].start
                    edits.append(Edit(pos, pos, self.ghost(cl) + '\n', rule='ghost'))
                elif cl.kind == 'loop-head':
                    edits.append(Edit(toks[o].end, toks[o].end, '\n' + self.ghost(cl) + '\n', rule='ghost'))
                elif cl.kind == 'loop-tail':
                    edits.append(Edit(toks[c].start, toks[c].start, '\n' + self.ghost(cl) + '\n', rule='ghost'))
                elif cl.kind == 'after-loop':
                    pos = toks[c].end
                    if r6:
                        pos = toks[c + 1].end
                    edits.append(Edit(pos, pos, '\n' + self.ghost(cl) + '\n', rule='ghost-after'))

        # --- anchors
        body_src_a = toks[a_tok].start
        body_src_b = toks[b_tok].end
        for cl in spec.clauses:
            if cl.kind in ('before', 'after'):
                text = src[body_src_a:body_src_b]
                pat = r'\s*'.join(re.escape(x.text) for x in lex(cl.anchor))
                ms = list(re.finditer(pat, text))
                if len(ms) != 1:
                    # a proof hint whose anchor statement is gone or ambiguous is dropped, not fatal: the property
                    # clauses are still checked; proof-internal failures of this function then count as undecided
                    self.lost_hints.append('%s (anchor %r matches %d times)' % (cl.cid, cl.anchor, len(ms)))
                    continue
                m = ms[0]
                pos = body_src_a + (m.start() if cl.kind == 'before' else m.end())
                edits.append(Edit(pos, pos, '\n' + self.ghost(cl) + '\n', rule='ghost'))
            elif cl.kind == 'at-start':
                pos = toks[a_tok].end
                edits.append(Edit(pos, pos, '\n' + self.ghost(cl) + '\n', rule='ghost'))
        ends = [cl for cl in spec.clauses if cl.kind == 'at-end']
        if ends:
            # R7: bind the tail expression: `E }` -> `let vx_res = E; <ghost>; vx_res }`
            t0 = self.tail_expr_start(a_tok, b_tok)
            pos0 = toks[t0].start
            pos1 = toks[b_tok - 1].end
            ann = (': ' + self.ret_type) if getattr(self, 'ret_type', None) else ''
            edits.append(Edit(pos0, pos0, 'let vx_res%s = ' % ann, rule='R7'))
            edits.append(Edit(pos1, pos1, ';\n' + '\n'.join(self.ghost(cl) for cl in ends) + '\nvx_res\n', rule='R7-end'))
            self.fire('R7', 'tail expression let-bound to vx_res')

        # --- vacuity probe points (twin only): after every statement a ghost branch asserts false;
        #     every one of them must be REFUTED by the verifier, otherwise the context at that point is
        #     inconsistent (contradictory contract / stub) or unreachable.
        if getattr(self, 'probe_mode', False):
            self.probe_ids = []
            par = 0
            stmt_first = None
            for i in range(a_tok + 1, b_tok):
                t = toks[i]
                if t.text in ('(', '['):
                    par += 1
                elif t.text in (')', ']'):
                    par -= 1
                if par > 0:
                    continue
                if stmt_first is None and t.text not in ('{', '}', ';'):
                    stmt_first = i
                if t.text in ('{', '}'):
                    stmt_first = None
                    continue
                if t.text == ';':
                    first = toks[stmt_first] if stmt_first is not None else None
                    stmt_first = None
                    if first is None:
                        continue
                    if first.kind == 'ident' and first.text in ('return', 'break', 'continue', 'panic', 'bail', 'use'):
                        continue
                    stxt = re.sub(r'\s+', ' ', src[first.start:t.end])
                    skip = False
                    for (anc_, why_) in spec.unreachable:
                        if re.sub(r'\s+', ' ', anc_) in stxt:
                            skip = True
                            self.fire('probe-skip', 'statement point declared unreachable (%s): %s' % (why_, anc_))
                    if skip:
                        continue
                    k_ = len(self.probe_ids)
                    pid_ = 'PROBE:%s:%d' % (spec.qname, k_)
                    self.probe_ids.append(pid_)
                    if getattr(self, 'only_point', None) == k_:
                        edits.append(Edit(t.end, t.end, '\nproof {\n/*@%s*/ assert(false);\n}\n' % pid_, rule='probe'))

        # --- R4-entry: `.entry(K).or_insert_with(F)` -> `.vx_entry_or_insert_with(K, F)` (F a fn path)
        #               `.entry(K).or_insert_with(|| Box::new(T::new()))` -> `.vx_entry_or_box_new(K, T::new)`
        for i in range(a_tok, b_tok):
            t = toks[i]
            if t.kind == 'ident' and t.text == 'entry' and toks[i - 1].text == '.' and toks[i + 1].text == '(':
                c1 = match_close(toks, i + 1)
                if not (toks[c1 + 1].text == '.' and toks[c1 + 2].text == 'or_insert_with' and toks[c1 + 3].text == '('):
                    raise GenError('R4-entry: unsupported use of entry()', spec.qname)
                c2 = match_close(toks, c1 + 3)
                arg = toks[c1 + 4:c2]
                argtxt = ' '.join(x.text for x in arg)
                ka, kb = toks[i + 2].start, toks[c1 - 1].end
                m_box = re.match(r'^\|\| Box :: new \( (\w+) :: new \( \) \)$', argtxt)
                m_path = re.match(r'^\w+( :: \w+)*$', argtxt)
                m_call1 = re.match(r'^\|\| (\w+(?: :: \w+)*) \( (\w+) \)$', argtxt)
                if m_box:
                    fnpath = m_box.group(1) + '::new'
                    meth = 'vx_entry_or_box_new'
                elif m_call1:
                    fnpath = m_call1.group(1).replace(' ', '') + ', ' + m_call1.group(2)
                    meth = 'vx_entry_or_call1'
                elif m_path:
                    fnpath = argtxt.replace(' ', '')
                    meth = 'vx_entry_or_insert_with'
                else:
                    raise GenError('R4-entry: unsupported initialiser %r' % argtxt, spec.qname)

                def mk(T, ka=ka, kb=kb, meth=meth, fnpath=fnpath):
                    return '%s(%s, %s)' % (meth, T(ka, kb), fnpath)
                edits.append(Edit(t.start, toks[c2].end, func=mk, rule='R4-entry'))
                self.fire('R4-entry', '.entry(..).or_insert_with(%s)' % argtxt)

        # --- R4 idioms (regex on the original text, located as edits)
        text = src[body_src_a:body_src_b]
        for (rule, pat, repl, kind_) in R4_RULES:
            for m in re.finditer(pat, text, re.S if kind_ == 'dotall' else 0):
                a0 = body_src_a + m.start()
                b0 = body_src_a + m.end()
                if kind_ == 'range':
                    lo = m.group('lo') or '0'
                    hi = m.group('hi')
                    e_ = m.group('e')
                    new_txt = 'vx_range(&%s, %s, %s)' % (e_, lo, hi) if hi else 'vx_range_from(&%s, %s)' % (e_, lo)
                else:
                    new_txt = m.expand(repl)
                edits.append(Edit(a0, b0, new_txt, rule=rule))
                self.fire(rule, re.sub(r'\s+', ' ', m.group(0)))
        return edits

    def ghost(self, cl):
        t = cl.text.strip()
        if not GHOST_OK.match(t):
            raise GenError('injected statement is not ghost: %r' % t[:40], self.spec.qname)
        self.ghost_lines.append(cl)
        return '/*@%s*/ %s' % (cl.cid, t)

    def loop_clause_edits(self, edits, pos, groups):
        parts = ['\n']
        for (kw, clauses, extra) in groups:
            parts.append('        %s\n' % kw)
            for x in extra:
                parts.append('            %s,\n' % x)
            for cl in clauses:
                parts.append('            /*@%s*/ %s,\n' % (cl.cid, cl.text.replace('\n', '\n            ')))
        parts.append('    ')
        edits.append(Edit(pos, pos, ''.join(parts), rule='loop-clauses'))

    def tail_expr_start(self, a_tok, b_tok):
        """Token index where the tail expression of the block [a_tok..b_tok] starts."""
        toks = self.sf.toks
        i = a_tok + 1
        start = i
        last_start = None
        while i < b_tok:
            start = i
            t = toks[i]
            blocklike = t.text == '{' or (t.kind == 'ident' and t.text in ('if', 'while', 'for', 'loop', 'match', 'unsafe')) \
                or (t.kind == 'lifetime' and toks[i + 1].text == ':')
            j = i
            ended = False
            while j < b_tok:
                tj = toks[j]
                if tj.text in ('(', '[', '{'):
                    c = match_close(toks, j)
                    if tj.text == '{' and blocklike:
                        nxt = toks[c + 1]
                        if nxt.kind == 'ident' and nxt.text == 'else':
                            j = c + 1
                            continue
                        if nxt.text in ('.', '?') or c + 1 >= b_tok:
                            j = c + 1
                            blocklike = False
                            continue
                        j = c + 1
                        ended = True
                        break
                    j = c + 1
                    continue
                if tj.text == ';':
                    j += 1
                    ended = True
                    break
                j += 1
            if not ended:
                return start
            i = j
        raise GenError('at-end: body has no tail expression', self.spec.qname)

    def stmt_end(self, i, limit):
        """Token index of the last token of the statement starting at token i."""
        toks = self.sf.toks
        t = toks[i]
        if t.text == '{' or (t.kind == 'ident' and t.text in ('for', 'while', 'loop', 'if', 'match')):
            j = i
            while toks[j].text != '{':
                if toks[j].text in ('(', '['):
                    j = match_close(toks, j)
                j += 1
            c = match_close(toks, j)
            return c
        j = i
        while j <= limit:
            if toks[j].text in ('(', '[', '{'):
                j = match_close(toks, j)
            elif toks[j].text == ';':
                return j
            j += 1
        raise GenError('statement end not found', self.spec.qname)

    def parse_select(self, o, c):
        toks = self.sf.toks
        arms = []
        i = o + 1
        while i < c:
            # pattern up to '=' at depth 0
            p0 = i
            j = i
            while not (toks[j].kind == 'punct' and toks[j].text == '='):
                if toks[j].text in ('(', '[', '{'):
                    j = match_close(toks, j)
                j += 1
                if j >= c:
                    raise GenError('R2: malformed select arm', self.spec.qname)
            p1 = j - 1
            f0 = j + 1
            k = f0
            while toks[k].text != '=>':
                if toks[k].text in ('(', '[', '{'):
                    k = match_close(toks, k)
                k += 1
                if k >= c:
                    raise GenError('R2: malformed select arm', self.spec.qname)
            f1 = k - 1
            b0 = k + 1
            if toks[b0].text == '{':
                b1 = match_close(toks, b0)
                nxt = b1 + 1
                if nxt < c and toks[nxt].text == ',':
                    nxt += 1
            else:
                m = b0
                while m < c and toks[m].text != ',':
                    if toks[m].text in ('(', '[', '{'):
                        m = match_close(toks, m)
                    m += 1
                b1 = m - 1
                nxt = m + 1
            fut_kind = 'call'
            if toks[f0].text == '&' and toks[f0 + 1].text == 'mut':
                fut_kind = 'mutref'
            elif toks[f1].text != ')':
                raise GenError('R2: unsupported future expression in select', self.spec.qname)
            arms.append((toks[p0].start, toks[p1].end, toks[f0].start, toks[f1].end,
                         toks[b0].start, toks[b1].end, fut_kind))
            i = nxt
        return arms

    # ------------------------------------------------------------------
    def emit(self, probe=False, only_point=None):
        """Return (text_lines, clause_line_offsets) for this function."""
        spec = self.spec
        sf = self.sf
        toks = sf.toks
        src = sf.src
        self.ghost_lines = []
        self.probe_mode = probe
        self.only_point = only_point
        self.lost_hints = []
        self.probe_ids = []
        item = self.locate()
        if spec.mode == 'fn':
            # signature: from qualifiers to before body
            q = item.fn_kw
            while q - 1 >= 0 and toks[q - 1].kind == 'ident' and toks[q - 1].text in ('pub', 'async', 'const', 'unsafe'):
                q -= 1
            if q - 1 >= 0 and toks[q - 1].text == ')':
                # pub(crate)
                pass
            sig_a = toks[q].start
            # return type
            pc = item.params_close
            ret = None
            where_txt = ''
            if toks[pc + 1].text == '->':
                r0 = pc + 2
                r1 = item.body_open - 1
                # where clause?
                for w in range(r0, item.body_open):
                    if toks[w].kind == 'ident' and toks[w].text == 'where':
                        r1 = w - 1
                        where_txt = ' ' + src[toks[w].start:toks[item.body_open - 1].end]
                        break
                ret = src[toks[r0].start:toks[r1].end]
            else:
                for w in range(pc + 1, item.body_open):
                    if toks[w].kind == 'ident' and toks[w].text == 'where':
                        where_txt = ' ' + src[toks[w].start:toks[item.body_open - 1].end]
                        break
            head = src[sig_a:toks[pc].end]
            # R8: Verus rejects `mut x: T` parameters of async fns ("not marked mutable"):
            #     `async fn f(mut x: T)` -> `async fn f(x: T) { let mut x = x; ..`
            self.mut_params = []
            is_async = any(toks[z].text == 'async' for z in range(q, item.fn_kw))
            if is_async:
                z = item.params_open + 1
                depth = 0
                while z < pc:
                    tz = toks[z]
                    if tz.text in ('(', '[', '{'):
                        z = match_close(toks, z)
                    elif tz.kind == 'ident' and tz.text == 'mut' and toks[z + 1].kind == 'ident' and toks[z + 2].text == ':' \
                            and toks[z - 1].text in ('(', ','):
                        self.mut_params.append(toks[z + 1].text)
                    z += 1
                for name in self.mut_params:
                    head = re.sub(r'\bmut\s+%s\s*:' % name, '%s:' % name, head, count=1)
                    self.fire('R8', 'mut parameter %s rebound by `let mut`' % name)
            if ret is not None:
                head += ' -> (%s: %s)' % (spec.result, ret)
            elif is_async:
                # R9: Verus drops the postcondition of an `async fn` without a declared return type at
                # call sites (probed); the unit return type is made explicit.
                head += ' -> (%s: ())' % spec.result
                self.fire('R9', 'explicit unit return type on async fn')
            head += where_txt
            body_a, body_b = item.body_open, item.body_close
            self.ret_type = ret
            edits = self.body_edits(body_a, body_b)
            if self.mut_params:
                pos = toks[body_a].end
                edits.append(Edit(pos, pos, ' ' + ' '.join('let mut %s = %s;' % (n_, n_) for n_ in self.mut_params), rule='R8'))
            body = apply_edits(src, toks[body_a].start, toks[body_b].end, edits)
            orig = src[sig_a:toks[body_b].end]
            span = (sig_a, toks[body_b].end)
        else:
            # R5: lift the n-th loop statement
            sub = toks[item.body_open:item.body_close + 1]
            n_, sigtxt, kind_ = spec.lift
            sigtxt = re.sub(r'^impl\s+\w+\s*:\s*', '', sigtxt)
            if kind_ == 'loop':
                loops = find_loops(sub)
                if n_ > len(loops):
                    raise GenError('lost anchor: loop %d for lifted block %s' % (n_, spec.qname), spec.qname)
                (k, o, c, label) = loops[n_ - 1]
                k += item.body_open
                c += item.body_open
                first = k if label is None else label + item.body_open
            elif kind_ == 'spawn':
                # body of the n-th `tokio::spawn(async move { BODY })`
                sp_ = [z for z in range(item.body_open, item.body_close) if toks[z].kind == 'ident' and toks[z].text == 'spawn'
                       and toks[z - 1].text == '::' and toks[z + 1].text == '(' and toks[z + 2].text == 'async']
                if n_ > len(sp_):
                    raise GenError('lost anchor: spawn %d for lifted block %s' % (n_, spec.qname), spec.qname)
                z = sp_[n_ - 1] + 2
                while toks[z].text != '{':
                    z += 1
                first = z + 1
                c = match_close(toks, z) - 1
            elif kind_ == 'closure':
                # n-th closure `|params| body` that is the (first) argument of a call: `( |..| BODY )`
                cs_ = [z for z in range(item.body_open, item.body_close) if toks[z].text == '|' and toks[z - 1].text == '(']
                if self.benchmark is False:
                    # closures inside #[cfg(feature = "benchmark")] statements do not exist in this configuration
                    pass
                if n_ > len(cs_):
                    raise GenError('lost anchor: closure %d for lifted block %s' % (n_, spec.qname), spec.qname)
                z = cs_[n_ - 1]
                call_open = z - 1
                call_close = match_close(toks, call_open)
                z2 = z + 1
                while toks[z2].text != '|':
                    z2 += 1
                first = z2 + 1
                c = call_close - 1
            else:
                ms_ = [z for z in range(item.body_open, item.body_close) if toks[z].kind == 'ident' and toks[z].text == 'match'
                       and toks[z - 1].text not in ('.', '::')]
                if n_ > len(ms_):
                    raise GenError('lost anchor: match %d for lifted block %s' % (n_, spec.qname), spec.qname)
                first = ms_[n_ - 1]
                z = first + 1
                while toks[z].text != '{':
                    if toks[z].text in ('(', '['):
                        z = match_close(toks, z)
                    z += 1
                c = match_close(toks, z)
            head = sigtxt
            self.mut_params = []
            if re.search(r'\basync\b', sigtxt):
                for m_ in re.finditer(r'[\(,]\s*mut\s+(\w+)\s*:', sigtxt):
                    self.mut_params.append(m_.group(1))
                for name in self.mut_params:
                    head = re.sub(r'\bmut\s+%s\s*:' % name, '%s:' % name, head, count=1)
                    self.fire('R8', 'mut parameter %s rebound by `let mut`' % name)
            self.fire('R5', '%s %d of %s lifted into %s' % (kind_, n_, '%s::%s' % (spec.target[0], spec.target[2]), spec.qname))
            edits = self.body_edits(first, c)
            if kind_ == 'match':
                # R5: the lifted statement was the body of its loop: a `continue` of that loop (not nested in an inner
                # loop of the lifted text) ends the body, i.e. becomes `return`
                inner = [(a_ + first, b_ + first) for (_k, a_, b_, _l) in find_loops(toks[first:c + 1])]
                for z in range(first, c):
                    if toks[z].kind == 'ident' and toks[z].text == 'continue' and toks[z + 1].text == ';' \
                            and not any(a_ < z < b_ for (a_, b_) in inner):
                        edits.append(Edit(toks[z].start, toks[z].end, 'return', rule='R5-continue'))
                        self.fire('R5-continue', '`continue` of the enclosing loop -> `return` of the lifted body')
            body = '{\n    ' + ' '.join('let mut %s = %s;' % (n_, n_) for n_ in self.mut_params) + apply_edits(src, toks[first].start, toks[c].end, edits) + '\n}'
            orig = src[toks[first].start:toks[c].end]
            span = (toks[first].start, toks[c].end)
            m = re.search(r'->\s*\(\s*(\w+)\s*:', sigtxt)

        # R10: declared type/receiver substitutions (dependency types -> stub types; `&self` -> `&mut self`
        #      where a ghost log must be updated through the receiver).  Exact text, counted.
        for (a_, b_) in spec.substs:
            pat_ = r'\s*'.join(re.escape(ch_) for ch_ in a_.split())
            n_sig = len(re.findall(pat_, head))
            n_body = len(re.findall(pat_, body))
            if n_sig + n_body == 0:
                raise GenError('lost anchor: subst %r does not occur in %s' % (a_, spec.qname), spec.qname)
            head = re.sub(pat_, lambda m_: b_, head)
            body = re.sub(pat_, lambda m_: b_, body)
            self.fire('R10', '%r -> %r (%d times)' % (a_, b_, n_sig + n_body))
        lines = []
        cmap = []   # (relative line index, clause)
        for a in spec.attrs:
            lines.append('    ' + a)
        if probe:
            lines.append('    #[allow(unused)]')
            suffix = '__probe' if only_point is None else '__probe_p%d' % only_point
            head = re.sub(r'\bfn\s+(\w+)', lambda m: 'fn %s%s' % (m.group(1), suffix), head, count=1)
        lines.extend(('    ' + head).split('\n'))
        for kw in ('requires', 'ensures', 'decreases'):
            g = [c_ for c_ in spec.clauses if c_.kind == kw]
            if probe and kw == 'ensures':
                if spec.noreturn or only_point is not None:
                    continue
                lines.append('        ensures')
                lines.append('            /*@%s#probe*/ false,' % spec.qname)
                continue
            if not g:
                continue
            lines.append('        ' + kw)
            for cl in g:
                cl_lines = ('/*@%s*/ %s,' % (cl.cid, cl.text)).split('\n')
                for n2, l2 in enumerate(cl_lines):
                    lines.append('            ' + l2)
        if probe and spec.noreturn:
            # unreachable-return function: the probe is an assert(false) at the head of loop 1
            body = re.sub(r'(\n\s*\{\s*\n)', r'\1', body)
        blines = body.split('\n')
        lines.append('    ' + blines[0])
        lines.extend(blines[1:])
        rec = {
            'fn': spec.qname,
            'file': sf.path,
            'span': span,
            'sha256': hashlib.sha256(orig.encode()).hexdigest(),
            'fired': self.fired,
            'orig': orig,
            'probe_ids': list(self.probe_ids),
            'lost_hints': list(self.lost_hints),
            'bare_loops': list(getattr(self, 'bare_loops', [])),
        }
        return lines, rec


def strip_attrs_and_docs(text):
    """Remove `#[...]` attributes and doc comments from a type definition; make fields pub."""
    toks = lex(text, keep_comments=True)
    out = []
    pos = 0
    i = 0
    while i < len(toks):
        t = toks[i]
        if t.kind in ('doc', 'comment'):
            out.append(text[pos:t.start])
            pos = t.end
        elif t.text == '#' and i + 1 < len(toks) and toks[i + 1].text == '[':
            c = match_close(toks, i + 1)
            out.append(text[pos:t.start])
            pos = toks[c].end
            i = c
        i += 1
    out.append(text[pos:])
    s = ''.join(out)
    s = re.sub(r'\n\s*\n', '\n', s)
    return s


def publicize_fields(text):
    toks = lex(text)
    # struct Name { a: T, b: U }  or  struct Name(T, U);
    kw = toks[0].text if toks[0].text != 'pub' else toks[1].text
    if kw != 'struct':
        return text
    # find body open
    i = 0
    while toks[i].text not in ('{', '(', ';'):
        if toks[i].text == '<':
            i = skip_generics(toks, i)
            continue
        i += 1
    if toks[i].text == ';':
        return text
    o = i
    c = match_close(toks, o)
    inserts = []
    expect_field = True
    j = o + 1
    while j < c:
        t = toks[j]
        if expect_field:
            if t.kind == 'ident' and t.text == 'pub':
                expect_field = False
            else:
                inserts.append(t.start)
                expect_field = False
        if t.text in ('(', '[', '{'):
            j = match_close(toks, j)
        elif t.text == '<':
            j = skip_generics(toks, j) - 1
        elif t.text == ',':
            expect_field = True
        j += 1
    for p in sorted(inserts, reverse=True):
        text = text[:p] + 'pub ' + text[p:]
    return text


class Generator:
    def __init__(self, repo, benchmark=False, ablate=None, use_derived=True):
        self.repo = repo
        self.benchmark = benchmark
        self.files = {}
        self.ablate = ablate            # dependency analysis (bin/deptags): emit `true` for this ensures clause
        self.use_derived = use_derived  # merge contracts/derived_tags.json (which properties' proofs rest on a clause)

    def sf(self, rel):
        if rel not in self.files:
            p = os.path.join(self.repo, rel)
            if not os.path.exists(p):
                raise GenError('lost anchor: file %s missing' % rel)
            with open(p) as f:
                self.files[rel] = SourceFile(rel, f.read())
        return self.files[rel]

    def generate(self, template_path, probe=False, quarantine=(), originals_external=False):
        """Returns dict(text=..., fns=[records], clause_lines={line: (cid,tags,fn)}, fn_ranges=[(a,b,fn,default_tags)],
        errors=[(fn, msg)])"""
        lines = read_template(template_path)
        segs = parse_template(lines)
        derived = load_derived_tags(template_path, lines) if self.use_derived else {}
        if self.ablate:
            # dependency analysis (bin/deptags): neutralise exactly one clause
            for sg in segs:
                if sg[0] != 'fn':
                    continue
                for c in sg[1].clauses:
                    if self.ablate.endswith('#*') and c.kind == 'ensures' and c.cid.startswith(self.ablate[:-1] + 'ensures.'):
                        c.text = 'true'     # function-level ablation: the whole postcondition at once (redundant clauses hide each other)
                    if c.cid == self.ablate:
                        if c.kind == 'ensures' or c.kind.startswith('loop_invariant') or c.kind == 'loop_ensures':
                            c.text = 'true'
                        elif re.match(r'^\s*(proof\s*\{|assert\b)', c.text):
                            c.text = 'proof { }'
        assumed = []
        for ln in lines:
            m = re.match(r'^\s*//@assumed\s+(\S+)\s+(\S+(?:\s+for\s+\S+)?)\s*\[([^\]]*)\]\s*(?:mirror=(\S+))?', ln)
            if m:
                rel, target, tags, mirror = m.group(1), m.group(2), m.group(3), m.group(4)
                ent = {'file': rel, 'fn': target, 'tags': [t for t in re.split(r'[ ,]+', tags) if t], 'mirror': mirror, 'sha256': None, 'error': None}
                try:
                    sf = self.sf(rel)
                    ty, tr, name = parse_target(target)
                    it = sf.find_fn(ty, name, tr)
                    if it is None:
                        ent['error'] = 'function not found'
                    else:
                        # token text only: comments and layout do not count as a change; the bodies of spawned tasks that the
                        # template lifts out of this function (`//@block .. spawn N`) are verified, not assumed: left out
                        skip = set()
                        lifted_n = [sg[1].lift[0] for sg in segs if sg[0] == 'fn' and sg[1].mode == 'block' and sg[1].lift[2] == 'spawn'
                                    and sg[1].file == rel and sg[1].target == (ty, tr, name)]
                        if lifted_n:
                            tk = sf.toks
                            sp_ = [z for z in range(it.body_open, it.body_close) if tk[z].kind == 'ident' and tk[z].text == 'spawn'
                                   and tk[z - 1].text == '::' and tk[z + 1].text == '(' and tk[z + 2].text == 'async']
                            for n_l in lifted_n:
                                if n_l <= len(sp_):
                                    z = sp_[n_l - 1] + 2
                                    while tk[z].text != '{':
                                        z += 1
                                    skip.update(range(z + 1, match_close(tk, z)))
                        lifted_loops = [sg[1].lift[0] for sg in segs if sg[0] == 'fn' and sg[1].mode == 'block' and sg[1].lift[2] == 'loop'
                                        and sg[1].file == rel and sg[1].target == (ty, tr, name)]
                        if lifted_loops:
                            loops_ = find_loops(sf.toks[it.body_open:it.body_close + 1])
                            for n_l in lifted_loops:
                                if n_l <= len(loops_):
                                    (k_l, o_l, c_l, label_l) = loops_[n_l - 1]
                                    skip.update(range(it.body_open + k_l, it.body_open + c_l + 1))
                        txt = ' '.join(t_.text for k_, t_ in enumerate(sf.toks[it.fn_kw:it.body_close + 1], it.fn_kw) if k_ not in skip)
                        ent['sha256'] = hashlib.sha256(txt.encode()).hexdigest()
                except (GenError, LexError) as e:
                    ent['error'] = str(e)
                assumed.append(ent)
        out = []
        clause_at = {}
        fn_ranges = []
        records = []
        errors = []
        specs = []
        twins = []
        twin_groups = []
        for seg in segs:
            if seg[0] == 'text':
                out.extend(seg[1])
            elif seg[0] == 'typedef':
                _, rel, kw, name, opts = seg
                try:
                    sf = self.sf(rel)
                    it = sf.find_typedef(kw, name)
                    if it is None:
                        raise GenError('lost anchor: %s %s not found in %s' % (kw, name, rel))
                    # skip attributes: start at the visibility/keyword
                    a = it.kw
                    while a - 1 >= 0 and sf.toks[a - 1].kind == 'ident' and sf.toks[a - 1].text == 'pub':
                        a -= 1
                    txt = sf.src[sf.toks[a].start:sf.toks[it.end].end]
                    txt = strip_attrs_and_docs(txt)
                    if kw == 'struct':
                        txt = publicize_fields(txt)
                    if not txt.startswith('pub'):
                        txt = 'pub ' + txt
                    for o_ in opts:
                        if o_.startswith('derive='):
                            out.append('#[derive(%s)]' % o_[7:])
                    out.append('/* extracted: %s %s %s */' % (rel, kw, name))
                    out.extend(txt.split('\n'))
                    records.append({'fn': '%s %s' % (kw, name), 'file': rel,
                                    'sha256': hashlib.sha256(txt.encode()).hexdigest(), 'fired': [('D-a', 'attributes/docs dropped; fields made pub')],
                                    'orig': txt, 'typedef': True})
                except (GenError, LexError) as e:
                    errors.append((name, str(e)))
            elif seg[0] == 'macro':
                _, rel, name = seg
                sf = self.sf(rel)
                it = sf.find_macro(name)
                if it is None:
                    errors.append((name, 'lost anchor: macro %s' % name))
                    continue
                txt = sf.src[sf.toks[it.kw].start:sf.toks[it.end].end]
                out.extend(txt.split('\n'))
            else:
                spec = seg[1]
                if spec.feature == 'benchmark' and not self.benchmark:
                    continue
                specs.append(spec)
                try:
                    sf = self.sf(spec.file)
                    em = FnEmitter(spec, sf, self.benchmark, None)
                    em.ablate = self.ablate
                    flines, rec = em.emit(probe=False)
                    if spec.qname in quarantine or originals_external:
                        # re-emit as external_body with its contract only
                        flines = self.quarantined(flines)
                        rec['quarantined'] = True
                    start = len(out) + 1
                    out.append('/* extracted: %s %s */' % (spec.file, spec.qname))
                    out.extend(flines)
                    end = len(out)
                    fn_ranges.append((start, end, spec.qname, spec.default))
                    rec['lines'] = (start, end)
                    rec['default_tags'] = spec.default
                    rec['clauses'] = [{'cid': c.cid, 'kind': c.kind, 'tags': c.tags, 'text': c.text, 'derived': derived.get(c.cid, [])} for c in spec.clauses
                                      if c.kind in ('requires', 'ensures', 'decreases') or c.kind.startswith('loop_')]
                    rec['noreturn'] = spec.noreturn
                    records.append(rec)
                    if probe and spec.qname not in quarantine and ('twin:' + spec.qname) not in quarantine:
                        em2 = FnEmitter(spec, sf, self.benchmark, None)
                        plines, prec = em2.emit(probe=True)
                        rec['probe_ids'] = prec.get('probe_ids', [])
                        if spec.noreturn:
                            plines = self.probe_noreturn(plines)
                        ty = spec.target[0] if spec.mode == 'fn' else None
                        if spec.mode == 'block':
                            m_ty = re.match(r'^impl\s+(\w+)\s*:', spec.lift[1])
                            ty = m_ty.group(1) if m_ty else None

                        def wrap(lines_, ty=ty, q=spec.qname):
                            o_ = ['/* vacuity probe twin of %s */' % q]
                            if ty:
                                o_.append('impl %s {' % ty)
                            o_.extend(lines_)
                            if ty:
                                o_.append('}')
                            o_.append('/* end twin */')
                            return o_
                        twin_groups.append(wrap(plines))
                        kept = []
                        for k_ in range(len(rec['probe_ids'])):
                            em3 = FnEmitter(spec, sf, self.benchmark, None)
                            qlines, _ = em3.emit(probe=True, only_point=k_)
                            if ('/*@%s*/' % rec['probe_ids'][k_]) not in '\n'.join(qlines):
                                continue      # the statement lies inside a region removed by another edit
                            kept.append(rec['probe_ids'][k_])
                            twin_groups.append(wrap(qlines))
                        rec['probe_ids'] = kept
                except (GenError, LexError) as e:
                    errors.append((spec.qname, str(e)))
                    records.append({'fn': spec.qname, 'file': spec.file, 'sha256': '', 'fired': [], 'orig': '',
                                    'lines': (0, 0), 'default_tags': spec.default, 'noreturn': spec.noreturn,
                                    'gen_error': str(e),
                                    'clauses': [{'cid': c.cid, 'kind': c.kind, 'tags': c.tags, 'text': c.text, 'derived': derived.get(c.cid, [])} for c in spec.clauses
                                                if c.kind in ('requires', 'ensures', 'decreases') or c.kind.startswith('loop_')]})
        if twin_groups:
            # twins are spread over child modules so that Verus verifies them in parallel (one job per module)
            NMOD = 15
            buse = [l for l in out if l.startswith('broadcast use ')]
            mods = [[] for _ in range(NMOD)]
            # longest first, round robin
            order = sorted(range(len(twin_groups)), key=lambda i_: -len(twin_groups[i_]))
            for n_, i_ in enumerate(order):
                mods[n_ % NMOD].extend(twin_groups[i_])
            for n_, m_ in enumerate(mods):
                if not m_:
                    continue
                twins.append('pub mod vx_twins_%d {' % n_)
                twins.append('use super::*;')
                twins.extend(buse)
                twins.extend(m_)
                twins.append('} // mod vx_twins_%d' % n_)
        if twins:
            # place the twins just before the closing of the verus! block
            idx = None
            for n_ in range(len(out) - 1, -1, -1):
                if out[n_].startswith('} // verus!'):
                    idx = n_
                    break
            if idx is None:
                raise GenError('template has no `} // verus!` line')
            out[idx:idx] = twins
        text = '\n'.join(out) + '\n'
        # clause line map from markers
        for n_, ln in enumerate(text.split('\n'), 1):
            for m in re.finditer(r'/\*@([^*]+)\*/', ln):
                clause_at.setdefault(n_, []).append(m.group(1))
        tags_of = {}
        for spec in specs:
            for c in spec.clauses:
                tags_of[c.cid] = (c.tags or spec.default, spec.qname, c.kind, c.text)
        explicit_tagged = set(c.cid for spec in specs for c in spec.clauses if c.tags)
        return {'text': text, 'records': records, 'clause_at': clause_at, 'fn_ranges': fn_ranges,
                'errors': errors, 'tags_of': tags_of, 'specs': specs, 'explicit_tagged': explicit_tagged, 'assumed': assumed,
                'derived': {k_: v_ for k_, v_ in derived.items() if k_ != '@dependants'},
                'dependants': derived.get('@dependants')}

    @staticmethod
    def quarantined(flines):
        # keep signature+contract (up to the first line that is exactly the body open), replace body
        out = ['    #[verifier::external_body]']
        depth = 0
        for n_, ln in enumerate(flines):
            s = ln.strip()
            if s.startswith('{') and depth == 0:
                out.append('    { unimplemented!() }')
                return out
            out.append(ln)
        return out

    @staticmethod
    def probe_noreturn(plines):
        # insert assert(false) at head of the first `loop`
        out = []
        done = False
        for ln in plines:
            out.append(ln)
            if not done and re.match(r'^\s*(loop|while\b.*)\s*$', ln.strip()) is None:
                pass
        txt = '\n'.join(plines)
        m = re.search(r'\bloop\b(?:[^{}]|\n)*?\{', txt)
        if m:
            txt = txt[:m.end()] + '\n/*@PROBE-noreturn*/ assert(false);\n' + txt[m.end():]
        return txt.split('\n')


def unified(orig, new, name):
    return ''.join(difflib.unified_diff(orig.splitlines(True), new.splitlines(True), 'repo:' + name, 'verified:' + name, n=1))
