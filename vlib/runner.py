"""Runner: generate units from /repo, run Verus, attribute failed obligations to properties,
vacuity probe, assumption scan, evidence.  Exit codes: 0 held, 1 violation, 2 undecided."""
import glob
import json
import os
import re
import subprocess
import sys
import time
import concurrent.futures as cf

sys.path.insert(0, os.path.dirname(os.path.abspath(__file__)))
from gen import Generator, GenError, read_template, parse_template, unified, VERIF  # noqa

REPO = os.environ.get('VERIF_REPO', '/repo')
BUILD = os.path.join(VERIF, 'build')
EVID = os.environ.get('EVID_DIR', os.path.join(VERIF, 'evidence'))

VERIF_MSGS = [
    'postcondition not satisfied', 'precondition not satisfied', 'invariant not satisfied',
    'assertion failed', 'possible arithmetic underflow/overflow', 'possible division by zero',
    'index out of bounds', 'decreases not satisfied', 'could not prove termination',
    'loop invariant', 'not satisfied', 'unreachable', 'possible bit shift underflow/overflow',
    'recommendation not met', 'failed precondition', 'slice index', 'possible overflow',
    'cannot prove', 'might fail', 'bounds',
]
UNDECIDED_MSGS = ['rlimit', 'Resource limit', 'resource limit', 'timed out', 'timeout']


def units_for(pid):
    """Return list of (unit name, template path, benchmark modes) serving the property."""
    out = []
    for p in sorted(glob.glob(os.path.join(VERIF, 'contracts', 'u*.vrs'))):
        lines = read_template(p)
        txt = '\n'.join(lines)
        tags = set()
        for m in re.finditer(r'^\s*//@\s*(?:default|requires|ensures|lemma|loop\s+\d+\s+\w+)\s*\[([^\]]*)\]', txt, re.M):
            tags.update(t for t in re.split(r'[ ,]+', m.group(1)) if t)
        for m in re.finditer(r'^\s*//@assumed\s+\S+\s+\S+(?:\s+for\s+\S+)?\s*\[([^\]]*)\]', txt, re.M):
            tags.update(t for t in re.split(r'[ ,]+', m.group(1)) if t)
        if pid in tags or pid == 'ALL':
            modes = [False]
            if re.search(r'^\s*//@unit-features\s+benchmark', txt, re.M):
                modes = [False, True]
            out.append((os.path.basename(p)[:-4], p, modes))
    return out


_VERUS_VERSION = None


def verus_version():
    global _VERUS_VERSION
    if _VERUS_VERSION is None:
        try:
            _VERUS_VERSION = subprocess.run(['verus', '--version'], stdout=subprocess.PIPE, text=True).stdout.strip()
        except Exception:
            _VERUS_VERSION = 'unknown'
    return _VERUS_VERSION


def run_verus(path, extra=()):
    """Run Verus on a generated unit.  The result is cached under build/cache keyed by the SHA-256 of
    the generated text + arguments + Verus version: the text is re-extracted from /repo on every run,
    so a cache hit means the very same verification problem was already decided (by another
    property's check on the same working tree).  VERIF_NOCACHE=1 disables it."""
    import hashlib
    with open(path) as f:
        text = f.read()
    key = hashlib.sha256((text + '\0' + ' '.join(extra) + '\0' + verus_version() + '\0v2').encode()).hexdigest()
    cdir = os.path.join(BUILD, 'cache')
    cpath = os.path.join(cdir, key + '.json')
    if os.environ.get('VERIF_NOCACHE') != '1' and os.path.exists(cpath):
        try:
            with open(cpath) as f:
                r = json.load(f)
            r['cache_hit'] = True
            return r
        except Exception:
            pass
    r = run_verus_uncached(path, extra)
    r['cache_hit'] = False
    r['ran_at'] = time.time()
    try:
        os.makedirs(cdir, exist_ok=True)
        import threading
        tmp = cpath + '.%d.%d.tmp' % (os.getpid(), threading.get_ident())
        with open(tmp, 'w') as f:
            json.dump(r, f)
        os.replace(tmp, cpath)
    except Exception:
        pass
    return r


def run_verus_uncached(path, extra=()):
    cmd = ['verus', path, '--triggers-mode', 'silent', '--output-json', '--time', '--error-format=json',
           '--num-threads', '16'] + ([] if '--multiple-errors' in extra else ['--multiple-errors', '6']) + (list(extra) if '--rlimit' in extra else ['--rlimit', '30'] + list(extra))
    t0 = time.time()
    p = subprocess.run(cmd, stdout=subprocess.PIPE, stderr=subprocess.PIPE, text=True, cwd=BUILD)
    wall = time.time() - t0
    js = None
    try:
        js = json.loads(p.stdout)
    except Exception:
        js = None
    diags = []
    for ln in p.stderr.split('\n'):
        ln = ln.strip()
        if ln.startswith('{'):
            try:
                diags.append(json.loads(ln))
            except Exception:
                pass
    return {'cmd': ' '.join(cmd), 'rc': p.returncode, 'json': js, 'diags': diags, 'wall': wall, 'stderr': p.stderr}


def clause_line_map(text):
    """line -> clause id: a marker line owns following lines until the next marker or a block keyword."""
    owner = {}
    cur = None
    block = None     # (cid, open brace depth) while inside a multi-line `proof { .. }` hint: every line of the block is the hint's
    for n, ln in enumerate(text.split('\n'), 1):
        if block is not None:
            owner[n] = block[0]
            depth = block[1] + ln.count('{') - ln.count('}')
            block = (block[0], depth) if depth > 0 else None
            cur = None
            continue
        ms = re.findall(r'/\*@([^*]+)\*/', ln)
        s = ln.strip()
        if ms:
            cur = ms[0]
            owner[n] = cur
            after = ln.split('*/', 1)[1] if '*/' in ln else ''
            if re.match(r'^\s*proof\s*\{', after):
                depth = after.count('{') - after.count('}')
                if depth > 0:
                    block = (cur, depth)
            if s.endswith(',') or s.endswith('}') or s.endswith(';'):
                # may still continue (multi-line) only when brackets are open; keep simple
                pass
            continue
        if cur is not None:
            if re.match(r'^(requires|ensures|invariant|invariant_except_break|decreases|\{|\}|loop|while|for|let |if |match |return|self\.|//|/\* extracted)', s) or s == '':
                cur = None
            else:
                owner[n] = cur
    return owner


def classify(diag):
    msg = diag.get('message', '')
    if diag.get('level') != 'error':
        return 'ignore'
    if msg.startswith('aborting due to'):
        return 'ignore'
    if any(u in msg for u in UNDECIDED_MSGS):
        return 'undecided'
    if diag.get('code'):
        return 'compile'
    if any(v in msg for v in VERIF_MSGS):
        return 'verif'
    return 'compile'


class UnitRun:
    def __init__(self, name, tpath, benchmark, extra=(), probe=True):
        self.name = name
        self.tpath = tpath
        self.benchmark = benchmark
        self.extra = extra
        self.probe = probe
        self.quarantine = {}
        self.failures = []
        self.undecided = []
        self.gen = None
        self.vr = None
        self.probe_ok = {}
        self.ablate = None
        self.use_derived = True

    @property
    def label(self):
        return self.name + ('+benchmark' if self.benchmark else '')

    def fn_at(self, line):
        for (a, b, fn, dflt) in self.gen['fn_ranges']:
            if a <= line <= b:
                return fn, dflt
        return None, None

    def write_unit(self, text, tag=''):
        import hashlib
        h8 = hashlib.sha256(text.encode()).hexdigest()[:10]
        out = os.path.join(BUILD, '%s%s-%s.rs' % (self.label.replace('+', '_'), tag, h8))
        if not os.path.exists(out):
            import threading
            tmp = out + '.%d.%d.tmp' % (os.getpid(), threading.get_ident())
            with open(tmp, 'w') as f:
                f.write(text)
            os.replace(tmp, out)
        try:
            latest = os.path.join(BUILD, self.label.replace('+', '_') + tag + '.rs')   # convenience copy for humans
            with open(latest, 'w') as f:
                f.write(text)
        except Exception:
            pass
        return out

    def run(self):
        g = Generator(REPO, benchmark=self.benchmark, ablate=self.ablate, use_derived=self.use_derived)
        for attempt in range(8):
            self.gen = g.generate(self.tpath, probe=False, quarantine=set(self.quarantine))
            out = self.write_unit(self.gen['text'])
            self.path = out
            for (fn, msg) in self.gen['errors']:
                self.quarantine.setdefault(fn, 'extractor: ' + msg)
            self.vr = run_verus(out, self.extra)
            # compile errors -> quarantine the function and retry
            newq = False
            self.compile_errors = []
            for d in self.vr['diags']:
                if classify(d) == 'compile':
                    line = None
                    for sp in d.get('spans', []):
                        if sp.get('is_primary'):
                            line = sp['line_start']
                    fn, _ = self.fn_at(line) if line else (None, None)
                    if fn and fn not in self.quarantine:
                        self.quarantine[fn] = 'verus: ' + d['message'][:200]
                        newq = True
                    elif not fn:
                        self.compile_errors.append('%s (line %s)' % (d['message'][:300], line))
            if self.compile_errors or not newq:
                break
        if '--rlimit' not in self.extra and any(classify(d) == 'undecided' for d in self.vr['diags']):
            # a resource-limit hit is not an answer: retry once with a much larger limit
            self.extra = list(self.extra) + ['--rlimit', '200']
            self.vr = run_verus(self.path, self.extra)
        self.attribute()
        return self

    def run_probe(self):
        """Vacuity probe: twins of every contracted function (originals as external_body with their
        contracts) - `ensures false` twin and one twin per statement point; each must be refuted."""
        self.probe_hit = set()
        self.probe_points_hit = set()
        self.probe_errors = []
        if not self.probe:
            return self
        g = Generator(REPO, benchmark=self.benchmark)
        self.pgen = g.generate(self.tpath, probe=True, quarantine=set(self.quarantine), originals_external=True)
        out = self.write_unit(self.pgen['text'], tag='-probe')
        self.pvr = run_verus(out, ['--multiple-errors', '0'])
        # A twin is VACUOUS iff the verifier PROVED it (`false` derivable).  A twin that is refuted
        # (error reported) or on which the solver gives up (rlimit) is not vacuous.
        self.probe_proved = set()
        self.probe_seen = set()
        js = self.pvr.get('json') or {}
        try:
            for m in js['times-ms']['smt']['smt-run-module-times']:
                for f in m.get('function-breakdown', []):
                    name = f['function']
                    if '__probe' in name:
                        short = '::'.join(name.split('::')[-2:])
                        self.probe_seen.add(short)
                        if f.get('success'):
                            self.probe_proved.add(short)
        except Exception:
            self.probe_errors.append('no function breakdown in the probe run')
        text = self.pgen['text']
        owner = clause_line_map(text)
        lines = text.split('\n')
        for d in self.pvr['diags']:
            k = classify(d)
            if k == 'ignore':
                continue
            spans = d.get('spans', [])
            all_lines = []
            for s_ in spans:
                all_lines.extend(range(s_['line_start'], s_['line_end'] + 1))
            if k == 'compile':
                self.probe_errors.append(d['message'][:200])
                continue
            for l in all_lines:
                c = owner.get(l)
                if not c:
                    continue
                if c.startswith('PROBE:'):
                    self.probe_points_hit.add(c)
                elif c.endswith('#probe'):
                    self.probe_hit.add(c[:-6])
                elif c == 'PROBE-noreturn':
                    tw = self.twin_at_text(lines, l)
                    if tw:
                        self.probe_hit.add(tw)
        return self

    @staticmethod
    def twin_at_text(lines, line):
        for n in range(line - 1, -1, -1):
            s = lines[n] if n < len(lines) else ''
            m = re.match(r'^/\* vacuity probe twin of (.*) \*/$', s)
            if m:
                return m.group(1)
            if s.startswith('/* extracted') or s.startswith('/* end twin'):
                return None
        return None

    def twin_at(self, line):
        lines = self.gen['text'].split('\n')
        # find the nearest preceding '/* vacuity probe twin of X */' not interrupted by '/* extracted'
        for n in range(line - 1, -1, -1):
            s = lines[n] if n < len(lines) else ''
            m = re.match(r'^/\* vacuity probe twin of (.*) \*/$', s)
            if m:
                return m.group(1)
            if s.startswith('/* extracted') or s.startswith('/* end twin'):
                return None
        return None

    def attribute(self):
        text = self.gen['text']
        owner = clause_line_map(text)
        tags_of = self.gen['tags_of']
        lines = text.split('\n')
        self.failures = []
        self.undecided = []
        for d in self.vr['diags']:
            k = classify(d)
            if k == 'ignore' or k == 'compile':
                continue
            spans = d.get('spans', [])
            prim = [s for s in spans if s.get('is_primary')]
            line = prim[0]['line_start'] if prim else None
            all_lines = []
            for s in spans:
                all_lines.extend(range(s['line_start'], s['line_end'] + 1))
            # probe twin?
            twin = None
            for l in all_lines:
                tw = self.twin_at(l)
                if tw:
                    twin = tw
            if twin is not None:
                cids = [owner.get(l) for l in all_lines if owner.get(l)]
                for c in cids:
                    if c.startswith('PROBE:'):
                        self.probe_points_hit.add(c)
                if any(c.endswith('#probe') or c == 'PROBE-noreturn' for c in cids) or \
                        any('PROBE-noreturn' in lines[l - 1] for l in all_lines if l - 1 < len(lines)):
                    self.probe_hit.add(twin)
                continue
            fn = None
            dflt = []
            for l in ([line] if line else []) + all_lines:
                f2, d2 = self.fn_at(l)
                if f2:
                    fn, dflt = f2, d2
                    break
            cids = []
            for l in all_lines:
                c = owner.get(l)
                if c and c not in cids:
                    cids.append(c)
            snippet = ''
            if prim:
                t = prim[0].get('text') or []
                if t:
                    tx = t[0]['text']
                    snippet = tx[t[0]['highlight_start'] - 1:t[0]['highlight_end'] - 1].strip()
                    if len(t) > 1:
                        snippet += ' ...'
            msg = d['message']
            if cids:
                cid = cids[-1] if len(cids) == 1 else [c for c in cids][0]
                # prefer the clause that is labelled (secondary/primary label mentions failed)
                for s in spans:
                    lab = (s.get('label') or '')
                    if 'failed' in lab or 'postcondition' in lab or 'precondition' in lab:
                        c = owner.get(s['line_start'])
                        if c:
                            cid = c
                tags, owner_fn, kind, ctext = tags_of.get(cid, (dflt, fn, 'hint', ''))
                if not tags:
                    tags = dflt
                if cid not in self.gen.get('explicit_tagged', set()) and kind not in ('requires', 'ensures', 'decreases') and tags:
                    # an untagged loop clause / ghost hint supports the function's PRIMARY property (first default tag);
                    # implicit safety obligations (overflow, index, unwrap, panic) carry all default tags
                    tags = list(tags)[:1]
                # properties whose proofs rest on this clause (contracts/derived_tags.json, computed by clause ablation)
                tags = list(tags) + [t_ for t_ in self.gen.get('derived', {}).get(cid, []) if t_ not in tags]
                oid = cid
                explicit = bool(tags_of.get(cid, ([], None, None, None))[0]) and cid in self.gen.get('explicit_tagged', set())
                internal = kind in ('before-loop', 'loop-head', 'loop-tail', 'after-loop', 'before', 'after', 'at-start', 'at-end') \
                    or (kind.startswith('loop_') and not explicit)
                if 'precondition' in msg and fn and owner_fn != fn:
                    oid = '%s@call:%s' % (fn, cid)
            else:
                tags = dflt
                oid = '%s@%s:%s' % (fn, msg, re.sub(r'\s+', ' ', snippet)[:80])
                internal = False
                ctext = snippet
            rec = {'unit': self.label, 'fn': fn, 'obligation': oid, 'message': msg, 'tags': list(tags or []),
                   'clause_text': ctext, 'proof_internal': internal, 'line': line,
                   'rendered': d.get('rendered', '')}
            lost = []
            for r_ in self.gen['records']:
                if r_['fn'] == fn:
                    lost = r_.get('lost_hints', [])
            hint_dependent = False
            if lost and cids and not internal:
                # a tagged clause failed in a function one of whose proof hints lost its anchor: the failure may be nothing but
                # the missing hint.  The clause-ablation analysis (bin/deptags) says which obligations need which hint; without
                # that information (stale file) every clause of the function is taken to depend on it.
                dep = self.gen.get('dependants')
                lost_cids = [l_.split(' ')[0] for l_ in lost]
                if dep is None:
                    hint_dependent = True
                else:
                    hint_dependent = any(oid in dep.get(lc, []) or oid.split('@call:')[-1] in dep.get(lc, []) for lc in lost_cids)
            if lost and (internal or not cids or hint_dependent):
                rec['message'] += ' [proof hint lost: %s]' % lost[0]
                self.undecided.append(rec)
            elif k == 'undecided' or fn is None:
                self.undecided.append(rec)
            else:
                self.failures.append(rec)
        # dedupe
        seen = set()
        uniq = []
        for f in self.failures:
            key = (f['obligation'], f['message'])
            if key in seen:
                continue
            seen.add(key)
            uniq.append(f)
        self.failures = uniq

    # -- reporting helpers ------------------------------------------------
    def fn_times(self):
        out = {}
        js = self.vr['json'] or {}
        try:
            for m in js['times-ms']['smt']['smt-run-module-times']:
                for f in m.get('function-breakdown', []):
                    out[f['function']] = {'ms': f['time'], 'rlimit': f['rlimit'], 'success': f['success']}
        except Exception:
            pass
        return out

    def assumptions(self):
        """Mechanical scan of the generated text for everything that is assumed, not proved."""
        text = self.gen['text']
        lines = text.split('\n')
        found = []
        for n, ln in enumerate(lines):
            s = ln.strip()
            if s.startswith('//'):
                continue
            if 'external_body' in s:
                # next fn line
                for k in range(n + 1, min(n + 6, len(lines))):
                    m = re.search(r'\bfn\s+(\w+)', lines[k])
                    if m:
                        found.append('external_body fn ' + self.ctx_name(lines, k, m.group(1)))
                        break
            if re.search(r'\bassume_specification\b', s):
                found.append('assume_specification ' + s[:100])
            if re.search(r'\bassume\s*\(', s):
                found.append('assume: ' + s[:100])
            if re.search(r'\badmit\s*\(', s):
                found.append('admit: ' + s[:100])
            m = re.search(r'\baxiom fn\s+(\w+)', s)
            if m:
                found.append('axiom ' + m.group(1))
            m = re.search(r'\buninterp spec fn\s+(\w+)', s)
            if m:
                found.append('uninterpreted spec fn ' + m.group(1))
        return sorted(set(found))

    @staticmethod
    def ctx_name(lines, k, name):
        # find enclosing impl header
        depth = 0
        for j in range(k, -1, -1):
            m = re.match(r'^\s*impl(?:<[^>]*>)?\s+(.*?)\s*\{', lines[j])
            if m and not lines[j].startswith('        '):
                return m.group(1).strip() + '::' + name
            if re.match(r'^(pub )?(async )?fn ', lines[j].strip()) and j != k and not lines[j].startswith(' '):
                break
        return name


def unit_lemmas(tpath):
    """`//@lemma [TAGS] name` lines of a template: pure proof fns that carry a property (no code extracted)."""
    out = []
    for ln in read_template(tpath):
        m = re.match(r'^\s*//@lemma\s*\[([^\]]*)\]\s*(\w+)', ln)
        if m:
            out.append((m.group(2), [t for t in re.split(r'[ ,]+', m.group(1)) if t]))
    return out


def load_known():
    p = os.path.join(VERIF, 'known_findings.json')
    if not os.path.exists(p):
        return {'open': [], 'fixed': []}
    with open(p) as f:
        return json.load(f)


def load_baseline():
    p = os.path.join(VERIF, 'contracts', 'baseline.json')
    if not os.path.exists(p):
        return None
    with open(p) as f:
        return json.load(f)
