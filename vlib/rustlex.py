"""A small Rust lexer and item locator (python3 stdlib only).

It is not a parser: it tokenises Rust source faithfully (strings, raw strings, byte strings,
chars vs. lifetimes, nested block comments, numbers, punctuation) and offers helpers to find
items (`impl` blocks, `fn`s, `struct`/`enum` definitions), matching delimiters, loops inside a
function body and statement boundaries.  Everything the extractor copies is a verbatim slice
`src[a:b]` of the file; tokens carry byte offsets so that every edit is an explicit splice.
"""
import re

IDENT_START = re.compile(r'[A-Za-z_]')
IDENT_RE = re.compile(r'[A-Za-z_][A-Za-z0-9_]*')
NUM_RE = re.compile(r'[0-9][0-9A-Za-z_]*(\.[0-9][0-9A-Za-z_]*)?')

PUNCT3 = ['<<=', '>>=', '...', '..=']
PUNCT2 = ['::', '->', '=>', '==', '!=', '<=', '>=', '&&', '||', '+=', '-=', '*=', '/=', '%=',
          '^=', '&=', '|=', '<<', '>>', '..']

OPEN = {'(': ')', '[': ']', '{': '}'}
CLOSE = {v: k for k, v in OPEN.items()}


class Tok:
    __slots__ = ('kind', 'text', 'start', 'end')

    def __init__(self, kind, text, start, end):
        self.kind = kind      # ident, num, str, char, lifetime, punct, comment, doc
        self.text = text
        self.start = start
        self.end = end

    def __repr__(self):
        return 'Tok(%s,%r,%d)' % (self.kind, self.text, self.start)


class LexError(Exception):
    pass


def lex(src, keep_comments=False):
    toks = []
    i = 0
    n = len(src)
    while i < n:
        c = src[i]
        if c in ' \t\r\n':
            i += 1
            continue
        if src.startswith('//', i):
            j = src.find('\n', i)
            if j < 0:
                j = n
            if keep_comments:
                kind = 'doc' if (src.startswith('///', i) or src.startswith('//!', i)) else 'comment'
                toks.append(Tok(kind, src[i:j], i, j))
            i = j
            continue
        if src.startswith('/*', i):
            depth = 1
            j = i + 2
            while j < n and depth > 0:
                if src.startswith('/*', j):
                    depth += 1
                    j += 2
                elif src.startswith('*/', j):
                    depth -= 1
                    j += 2
                else:
                    j += 1
            if keep_comments:
                toks.append(Tok('comment', src[i:j], i, j))
            i = j
            continue
        # raw strings / byte strings
        m = re.match(r'(b?r)(#*)"', src[i:i + 40])
        if m:
            hashes = m.group(2)
            close = '"' + hashes
            j = src.find(close, i + len(m.group(0)))
            if j < 0:
                raise LexError('unterminated raw string at %d' % i)
            j += len(close)
            toks.append(Tok('str', src[i:j], i, j))
            i = j
            continue
        if c == '"' or (c == 'b' and i + 1 < n and src[i + 1] == '"'):
            j = i + (2 if c == 'b' else 1)
            while j < n and src[j] != '"':
                if src[j] == '\\':
                    j += 2
                else:
                    j += 1
            j += 1
            toks.append(Tok('str', src[i:j], i, j))
            i = j
            continue
        if c == "'" or (c == 'b' and i + 1 < n and src[i + 1] == "'"):
            k = i + (1 if c == 'b' else 0)
            # char literal or lifetime?
            if src[k + 1] == '\\':
                j = k + 2
                while j < n and src[j] != "'":
                    j += 1
                j += 1
                toks.append(Tok('char', src[i:j], i, j))
                i = j
                continue
            if k + 2 < n and src[k + 2] == "'":
                j = k + 3
                toks.append(Tok('char', src[i:j], i, j))
                i = j
                continue
            m = IDENT_RE.match(src, k + 1)
            if m:
                j = m.end()
                toks.append(Tok('lifetime', src[i:j], i, j))
                i = j
                continue
            raise LexError('bad quote at %d' % i)
        if IDENT_START.match(c):
            m = IDENT_RE.match(src, i)
            j = m.end()
            # raw identifiers r#x
            toks.append(Tok('ident', src[i:j], i, j))
            i = j
            continue
        if c.isdigit():
            m = NUM_RE.match(src, i)
            j = m.end()
            # avoid swallowing range `0..n` or method call `1.max`
            txt = src[i:j]
            if '.' in txt:
                dot = txt.index('.')
                after = txt[dot + 1:dot + 2]
                if not after.isdigit():
                    j = i + dot
            toks.append(Tok('num', src[i:j], i, j))
            i = j
            continue
        for p in PUNCT3:
            if src.startswith(p, i):
                toks.append(Tok('punct', p, i, i + 3))
                i += 3
                break
        else:
            for p in PUNCT2:
                if src.startswith(p, i):
                    toks.append(Tok('punct', p, i, i + 2))
                    i += 2
                    break
            else:
                toks.append(Tok('punct', c, i, i + 1))
                i += 1
    return toks


def match_close(toks, i):
    """toks[i] is an opening delimiter; return index of the matching close."""
    assert toks[i].text in OPEN, toks[i]
    depth = 0
    j = i
    while j < len(toks):
        t = toks[j]
        if t.kind == 'punct':
            if t.text in OPEN:
                depth += 1
            elif t.text in CLOSE:
                depth -= 1
                if depth == 0:
                    return j
        j += 1
    raise LexError('unbalanced delimiter at %d' % toks[i].start)


def skip_generics(toks, i):
    """toks[i] is '<'; return index after the matching '>' (handles '>>', '->')."""
    depth = 0
    j = i
    while j < len(toks):
        t = toks[j]
        if t.kind == 'punct':
            if t.text == '<':
                depth += 1
            elif t.text == '>':
                depth -= 1
            elif t.text == '>>':
                depth -= 2
            elif t.text in OPEN:
                j = match_close(toks, j)
            if depth <= 0:
                return j + 1
        j += 1
    raise LexError('unbalanced generics')


class Item:
    def __init__(self, **kw):
        self.__dict__.update(kw)


class SourceFile:
    def __init__(self, path, src):
        self.path = path
        self.src = src
        self.toks = lex(src)

    # ---- item location -------------------------------------------------
    def _attr_start(self, i):
        """Walk back over `#[...]` attributes and visibility/qualifier keywords preceding token i;
        return the token index where the item (incl. attributes) starts."""
        toks = self.toks
        j = i
        while True:
            k = j - 1
            if k >= 0 and toks[k].kind == 'ident' and toks[k].text in (
                    'pub', 'async', 'const', 'unsafe', 'extern', 'default'):
                j = k
                continue
            if k >= 0 and toks[k].text == ')' and True:
                # pub(crate)
                o = k
                depth = 0
                while o >= 0:
                    if toks[o].text == ')':
                        depth += 1
                    elif toks[o].text == '(':
                        depth -= 1
                        if depth == 0:
                            break
                    o -= 1
                if o >= 1 and toks[o - 1].text == 'pub':
                    j = o - 1
                    continue
            if k >= 0 and toks[k].text == ']':
                # attribute?
                o = k
                depth = 0
                while o >= 0:
                    if toks[o].text == ']':
                        depth += 1
                    elif toks[o].text == '[':
                        depth -= 1
                        if depth == 0:
                            break
                    o -= 1
                if o >= 1 and toks[o - 1].text == '#':
                    j = o - 1
                    continue
            return j

    def impls(self):
        """Yield (type_name, trait_name or None, open_brace_idx, close_brace_idx) for each impl."""
        toks = self.toks
        out = []
        i = 0
        depth = 0
        while i < len(toks):
            t = toks[i]
            if t.kind == 'ident' and t.text == 'trait' and toks[i + 1].kind == 'ident' and (i == 0 or toks[i - 1].text in (';', '}', 'pub', ']', ')')):
                # `trait Name: Bounds { default methods }` is listed like an inherent impl of `Name`
                j = i + 2
                while j < len(toks) and toks[j].text not in ('{', ';'):
                    j += 1
                if j < len(toks) and toks[j].text == '{':
                    c = match_close(toks, j)
                    out.append((toks[i + 1].text, None, j, c, i))
                    i = c + 1
                    continue
            if t.kind == 'ident' and t.text == 'impl' and (i == 0 or toks[i - 1].text != '.'):
                j = i + 1
                if toks[j].text == '<':
                    j = skip_generics(toks, j)
                # collect tokens up to '{' at depth 0
                hdr = []
                while toks[j].text != '{':
                    if toks[j].text == '<':
                        k = skip_generics(toks, j)
                        hdr.extend(toks[j:k])
                        j = k
                        continue
                    if toks[j].text == ';':
                        break
                    hdr.append(toks[j])
                    j += 1
                if toks[j].text != '{':
                    i = j + 1
                    continue
                names = [h.text for h in hdr if h.kind == 'ident']
                trait = None
                ty = None
                # `impl Trait for Type` or `impl Type`
                idx_for = None
                d = 0
                for n_, h in enumerate(hdr):
                    if h.text == '<':
                        d += 1
                    elif h.text == '>':
                        d -= 1
                    elif h.text == '>>':
                        d -= 2
                    elif h.kind == 'ident' and h.text == 'for' and d == 0:
                        idx_for = n_
                if 'where' in names:
                    w = [n_ for n_, h in enumerate(hdr) if h.kind == 'ident' and h.text == 'where'][0]
                    hdr_main = hdr[:w]
                else:
                    hdr_main = hdr

                def first_path_name(hs):
                    # last ident of the leading path before any '<'
                    name = None
                    for h in hs:
                        if h.text == '<':
                            break
                        if h.kind == 'ident':
                            name = h.text
                    return name
                if idx_for is not None:
                    trait = first_path_name(hdr_main[:idx_for])
                    ty = first_path_name(hdr_main[idx_for + 1:])
                else:
                    ty = first_path_name(hdr_main)
                close = match_close(toks, j)
                out.append((ty, trait, j, close, i))
                i = j + 1
                continue
            i += 1
        return out

    def find_fn(self, type_name, fn_name, trait=None):
        """Locate `fn fn_name` inside `impl [trait for] type_name` (or a free fn when type_name is None).
        Returns Item(sig_start, name_tok, body_open, body_close, attrs_start) as token indices."""
        toks = self.toks
        ranges = []
        if type_name is None:
            ranges = [(0, len(toks) - 1, 0)]
        else:
            for (ty, tr, o, c, _) in self.impls():
                if ty == type_name and (trait is None or tr == trait):
                    ranges.append((o + 1, c, 1))
        found = []
        for (a, b, base_depth) in ranges:
            i = a
            depth = 0
            while i < b:
                t = toks[i]
                if t.kind == 'punct' and t.text == '{':
                    # skip nested bodies at this level unless it is a free-fn search at depth 0
                    c = match_close(toks, i)
                    if type_name is None:
                        # allow free fns only at file top level: skip all braces
                        i = c + 1
                        continue
                    i = c + 1
                    continue
                if t.kind == 'ident' and t.text == 'fn' and toks[i + 1].kind == 'ident' \
                        and toks[i + 1].text == fn_name:
                    # find body
                    j = i + 2
                    if toks[j].text == '<':
                        j = skip_generics(toks, j)
                    assert toks[j].text == '(', toks[j]
                    pc = match_close(toks, j)
                    k = pc + 1
                    while toks[k].text not in ('{', ';'):
                        if toks[k].text == '<':
                            k = skip_generics(toks, k)
                            continue
                        if toks[k].text in ('(', '['):
                            k = match_close(toks, k) + 1
                            continue
                        k += 1
                    if toks[k].text == ';':
                        i = k + 1
                        continue
                    bc = match_close(toks, k)
                    found.append(Item(fn_kw=i, name=i + 1, params_open=j, params_close=pc,
                                      body_open=k, body_close=bc, start=self._attr_start(i)))
                    i = bc + 1
                    continue
                i += 1
        if not found:
            return None
        if len(found) > 1:
            raise LexError('ambiguous fn %s::%s in %s' % (type_name, fn_name, self.path))
        return found[0]

    def find_typedef(self, kw, name):
        """Locate `struct name {..}` / `struct name(..);` / `enum name {..}` / `type name = ..;`."""
        toks = self.toks
        depth = 0
        for i, t in enumerate(toks):
            if t.kind == 'punct' and t.text == '{':
                depth += 1
            elif t.kind == 'punct' and t.text == '}':
                depth -= 1
            elif depth == 0 and t.kind == 'ident' and t.text == kw and toks[i + 1].kind == 'ident' \
                    and toks[i + 1].text == name:
                j = i + 2
                if toks[j].text == '<':
                    j = skip_generics(toks, j)
                if kw == 'type' or kw == 'const':
                    while toks[j].text != ';':
                        j += 1
                    return Item(kw=i, start=self._attr_start(i), end=j, body_open=None)
                if toks[j].text == ';':
                    return Item(kw=i, start=self._attr_start(i), end=j, body_open=None)
                if toks[j].text == '(':
                    c = match_close(toks, j)
                    e = c + 1
                    while toks[e].text != ';':
                        e += 1
                    return Item(kw=i, start=self._attr_start(i), end=e, body_open=j, body_close=c)
                while toks[j].text != '{':
                    j += 1
                c = match_close(toks, j)
                return Item(kw=i, start=self._attr_start(i), end=c, body_open=j, body_close=c)
        return None

    def find_macro(self, name):
        toks = self.toks
        for i, t in enumerate(toks):
            if t.kind == 'ident' and t.text == 'macro_rules' and toks[i + 1].text == '!' \
                    and toks[i + 2].text == name:
                c = match_close(toks, i + 3)
                return Item(kw=i, start=self._attr_start(i), end=c)
        return None

    def text(self, a_tok, b_tok):
        """Verbatim text from start of token a to end of token b (inclusive)."""
        return self.src[self.toks[a_tok].start:self.toks[b_tok].end]


LOOP_KW = ('loop', 'while', 'for')


def find_loops(toks):
    """Within a token list (a function body), return a list of
    (kw_index, body_open_index, body_close_index, label_index or None) for each loop in source order.
    `for` inside `impl .. for` / HRTB cannot occur inside bodies we extract."""
    out = []
    for i, t in enumerate(toks):
        if t.kind == 'ident' and t.text in LOOP_KW:
            if i > 0 and toks[i - 1].text in ('.', '::'):
                continue
            if t.text == 'for' and i + 1 < len(toks) and toks[i + 1].text == '<':
                continue
            j = i + 1
            while j < len(toks) and toks[j].text != '{':
                if toks[j].text in ('(', '['):
                    j = match_close(toks, j) + 1
                    continue
                j += 1
            if j >= len(toks):
                continue
            c = match_close(toks, j)
            label = None
            if i >= 2 and toks[i - 1].text == ':' and toks[i - 2].kind == 'lifetime':
                label = i - 2
            out.append((i, j, c, label))
    return out
