use vstd::prelude::*;
verus! {

pub struct CryptoError;
pub enum ConsensusError { InvalidSignature(CryptoError), Other }
impl vstd::std_specs::convert::FromSpecImpl<CryptoError> for ConsensusError {
    open spec fn obeys_from_spec() -> bool { true }
    open spec fn from_spec(e: CryptoError) -> ConsensusError { ConsensusError::InvalidSignature(e) }
}
impl From<CryptoError> for ConsensusError {
    fn from(e: CryptoError) -> (r: ConsensusError)
    { ConsensusError::InvalidSignature(e) }
}
pub type ConsensusResult<T> = Result<T, ConsensusError>;

#[verifier::external_body]
fn sig_verify(x: u64) -> (r: Result<(), CryptoError>)
    ensures r.is_ok() <==> x == 7
{ unimplemented!() }

fn verify(x: u64) -> (r: ConsensusResult<()>)
    ensures r.is_ok() <==> x == 7
{
    sig_verify(x)?;
    Ok(())
}

fn verify2(x: u64) -> (r: ConsensusResult<()>)
    ensures r.is_ok() <==> x == 7
{
    sig_verify(x).map_err(ConsensusError::from)
}

} // verus!
fn main() {}
