use vstd::prelude::*;
verus! {

pub type Key = int;

// total stake of a finite map
pub open spec fn total(m: Map<Key, nat>) -> nat
    decreases m.dom().len()
    when m.dom().finite()
{
    if m.dom().len() == 0 { 0 } else {
        let k = m.dom().choose();
        m[k] + total(m.remove(k))
    }
}

pub proof fn lemma_total_remove(m: Map<Key, nat>, k: Key)
    requires m.dom().finite(), m.contains_key(k),
    ensures total(m) == m[k] + total(m.remove(k)),
    decreases m.dom().len(),
{
    let c = m.dom().choose();
    assert(m.dom().len() > 0) by { if m.dom().len() == 0 { assert(m.dom() =~= Set::empty()); } }
    if c == k {
    } else {
        // total(m) = m[c] + total(m - c);  total(m - c) = m[k] + total(m - c - k)
        lemma_total_remove(m.remove(c), k);
        // total(m - k) = m[c] + total(m - k - c)
        lemma_total_remove(m.remove(k), c);
        assert(m.remove(c).remove(k) =~= m.remove(k).remove(c));
    }
}

// sum of stakes of a sequence of keys (0 for non-members)
pub open spec fn sum_seq(m: Map<Key, nat>, s: Seq<Key>) -> nat
    decreases s.len()
{
    if s.len() == 0 { 0 } else {
        sum_seq(m, s.drop_last()) + (if m.contains_key(s.last()) { m[s.last()] } else { 0 })
    }
}

pub proof fn lemma_distinct_sum_le_total(m: Map<Key, nat>, s: Seq<Key>)
    requires m.dom().finite(), s.no_duplicates(),
    ensures sum_seq(m, s) <= total(m),
    decreases s.len(),
{
    if s.len() == 0 {
    } else {
        let k = s.last();
        let r = s.drop_last();
        assert(r.no_duplicates());
        assert(!r.contains(k)) by {
            if r.contains(k) { let i = choose|i: int| 0 <= i < r.len() && r[i] == k; assert(s[i] == k); assert(s[s.len() - 1] == k); }
        }
        if m.contains_key(k) {
            lemma_total_remove(m, k);
            lemma_distinct_sum_le_total(m.remove(k), r);
            lemma_sum_remove_absent(m, r, k);
        } else {
            lemma_distinct_sum_le_total(m, r);
        }
    }
}

pub proof fn lemma_sum_remove_absent(m: Map<Key, nat>, s: Seq<Key>, k: Key)
    requires !s.contains(k),
    ensures sum_seq(m.remove(k), s) == sum_seq(m, s),
    decreases s.len(),
{
    if s.len() > 0 {
        let r = s.drop_last();
        assert(!r.contains(k)) by { if r.contains(k) { let i = choose|i: int| 0 <= i < r.len() && r[i] == k; assert(s[i] == k); } }
        assert(s.last() != k) by { assert(s[s.len() - 1] == s.last()); }
        lemma_sum_remove_absent(m, r, k);
    }
}

// quorum arithmetic (C17)
pub open spec fn quorum(n: nat) -> nat { 2 * n / 3 + 1 }
pub proof fn lemma_quorum(n: nat)
    requires 1 <= n < 0x8000_0000,
    ensures
        3 * quorum(n) > 2 * n,
        quorum(n) <= n - (n - 1) / 3,
        2 * quorum(n) - n > (n - 1) / 3,
        2 * n <= 0xffff_ffff,
{
}

} // verus!
fn main() {}
