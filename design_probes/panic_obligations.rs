use vstd::prelude::*;
use std::collections::HashMap;
use std::collections::VecDeque;
verus! {

// (a) panic!/expect/unwrap obligations
fn f_expect(o: Option<u64>) -> u64 { o.expect("boom") }
fn f_panic(x: u64) -> u64 { if x > 3 { panic!("Unexpected protocol message") } x }

// (b) slice range index and try_into
fn f_slice(bytes: Vec<u8>) -> u8 {
    let s = &bytes[..32];
    s[0]
}

// (d) VecDeque ops
fn f_deque(d: &mut VecDeque<u64>) -> (r: Option<u64>)
{
    d.push_front(3);
    d.pop_back()
}

// (e) Vec index of Vec<u8>
fn f_idx(tx: &Vec<u8>) -> bool { tx[0] == 0u8 && tx.len() > 8 }

} // verus!
fn main() {}
