use vstd::prelude::*;
verus! {

pub struct Sender<T> { _p: std::marker::PhantomData<T> }
pub struct Receiver<T> { _p: std::marker::PhantomData<T> }
pub struct SendError;
impl<T> Sender<T> {
    pub uninterp spec fn log(&self) -> Seq<T>;
    #[verifier::external_body]
    pub async fn send(&mut self, v: T) -> (r: Result<(), SendError>)
        ensures final(self).log() == old(self).log().push(v), r.is_ok(),
    { unimplemented!() }
}
impl<T> Receiver<T> {
    #[verifier::external_body]
    pub async fn recv(&mut self) -> (r: Option<T>)
    { unimplemented!() }
}
pub struct Timer { d: u64 }
#[verifier::external_body]
pub async fn vx_await_mut(t: &mut Timer) { unimplemented!() }
#[verifier::external_body]
pub fn vx_select_branch() -> u8 { unimplemented!() }

pub enum Msg { A(u64), B(u64) }

pub struct Core {
    rx_message: Receiver<Msg>,
    tx_commit: Sender<u64>,
    timer: Timer,
    round: u64,
    lvr: u64,
}

impl Core {
    pub closed spec fn inv(&self) -> bool { self.lvr <= self.round && self.round < 0xffff_ffff_ffff_0000 }

    async fn handle_a(&mut self, x: u64) -> (r: Result<(), u8>)
        requires old(self).inv(),
        ensures final(self).inv(), final(self).round >= old(self).round,
            final(self).tx_commit.log() == old(self).tx_commit.log(),
    {
        if x > self.round && x < 1000 { self.round = x; }
        Ok(())
    }
    async fn local_timeout(&mut self) -> (r: Result<(), u8>)
        requires old(self).inv(),
        ensures final(self).inv(), final(self).round == old(self).round,
    {
        self.lvr = self.round;
        if let Err(e) = self.tx_commit.send(self.round).await { }
        Ok(())
    }

    #[verifier::exec_allows_no_decreases_clause]
    pub async fn run(&mut self)
        requires old(self).inv(),
    {
        loop
            invariant self.inv(),
        {
            let result = match vx_select_branch() {
                0 => match self.rx_message.recv().await {
                    Some(message) => match message {
                        Msg::A(x) => self.handle_a(x).await,
                        _ => panic!("Unexpected protocol message"),
                    },
                    _ => { assume(false); unreached() }
                },
                _ => match vx_await_mut(&mut self.timer).await { () => self.local_timeout().await },
            };
            match result { Ok(()) => (), Err(e) => () }
        }
    }
}

} // verus!
fn main() {}
