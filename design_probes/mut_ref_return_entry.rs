use vstd::prelude::*;
use std::collections::HashMap;
verus! {

pub struct Maker { pub weight: u32 }
impl Maker {
    fn append(&mut self, x: u32) -> (r: bool)
        requires old(self).weight < 1000, x < 1000,
        ensures final(self).weight == old(self).weight + x,
    { self.weight += x; true }
}

#[verifier::external_body]
fn vx_entry<'a>(m: &'a mut HashMap<u64, Maker>, k: u64) -> (r: &'a mut Maker)
    ensures
        *r == (if old(m)@.contains_key(k) { old(m)@[k] } else { Maker { weight: 0 } }),
        final(m)@ == old(m)@.insert(k, *final(r)),
{ unimplemented!() }

fn user(m: &mut HashMap<u64, Maker>, k: u64)
    requires forall|j: u64| old(m)@.contains_key(j) ==> old(m)@[j].weight < 1000,
    ensures final(m)@.contains_key(k), final(m)@[k].weight == (if old(m)@.contains_key(k) { old(m)@[k].weight } else { 0 }) + 5,
{
    vx_entry(m, k).append(5);
}

} // verus!
fn main() {}
