use vstd::prelude::*;
use std::collections::HashSet;
verus! {

#[derive(Copy, Clone, Eq, PartialEq, Hash)]
pub struct PublicKey(pub [u8; 32]);

pub mod ax {
    use super::*;
    pub broadcast axiom fn axiom_pk_key_model()
        ensures #[trigger] vstd::std_specs::hash::obeys_key_model::<PublicKey>();
}

broadcast use ax::axiom_pk_key_model;

fn dup(votes: &Vec<(PublicKey, u8)>) -> (r: bool)
    ensures r ==> forall|i: int, j: int| 0 <= i < j < votes@.len() ==> votes@[i].0 != votes@[j].0,
{
    let mut used: HashSet<PublicKey> = HashSet::new();
    for (name, _) in it: votes.iter()
        invariant
            it.seq().len() == votes@.len(),
            forall|i: int| 0 <= i < votes@.len() ==> *it.seq()[i] == votes@[i],
            forall|i: int| 0 <= i < it.index@ ==> used@.contains(votes@[i].0),
            forall|k: PublicKey| used@.contains(k) ==> exists|i: int| 0 <= i < it.index@ && votes@[i].0 == k,
            forall|i: int, j: int| 0 <= i < j < it.index@ ==> votes@[i].0 != votes@[j].0,
    {
        proof { assert(*name == votes@[it.index@].0); }
        if used.contains(name) { return false; }
        used.insert(*name);
        proof { assert(used@.contains(*name)); }
    }
    true
}

} // verus!
fn main() {}
