use vstd::prelude::*;
use std::collections::VecDeque;
verus! {

pub type Round = u64;
pub struct Digest(pub [u8; 32]);
pub struct QC { pub hash: Digest, pub round: Round }
pub struct Block { pub qc: QC, pub round: Round, pub id: u64 }
pub struct ConsensusError;
pub type ConsensusResult<T> = Result<T, ConsensusError>;

impl Clone for Block {
    #[verifier::external_body]
    fn clone(&self) -> (r: Self) ensures r == *self { unimplemented!() }
}

// parent relation (R-store + A-cert packaged): uninterpreted, with the facts the contract needs
pub uninterp spec fn parent_of(b: Block) -> Block;
pub open spec fn certified_chain(b: Block) -> bool { b.round > 0 ==> parent_of(b).round < b.round }

pub struct Sender { _x: u8 }
pub struct SendError;
impl Sender {
    pub uninterp spec fn log(&self) -> Seq<Block>;
    #[verifier::external_body]
    pub async fn send(&mut self, v: Block) -> (r: Result<(), SendError>)
        ensures final(self).log() == old(self).log().push(v)
    { unimplemented!() }
}
pub struct Synchronizer { _x: u8 }
impl Synchronizer {
    #[verifier::external_body]
    pub async fn get_parent_block(&mut self, block: &Block) -> (r: ConsensusResult<Option<Block>>)
        ensures r is Ok ==> (r->Ok_0 is Some && r->Ok_0->Some_0 == parent_of(*block)),
    { unimplemented!() }
}

pub struct Core {
    pub synchronizer: Synchronizer,
    pub tx_commit: Sender,
    pub last_committed_round: Round,
}

pub open spec fn chain_all(b: Block) -> bool
    decreases b.round
{
    b.round > 0 ==> (parent_of(b).round < b.round && chain_all(parent_of(b)))
}

// delivered segment spec: d is ascending chain ending in block, all rounds > lcr, first parent <= lcr
pub open spec fn good_delivery(d: Seq<Block>, block: Block, lcr: Round) -> bool {
    &&& d.len() > 0
    &&& d.last() == block
    &&& forall|i: int| 0 <= i < d.len() - 1 ==> d[i] == parent_of(#[trigger] d[i + 1])
    &&& forall|i: int| 0 <= i < d.len() ==> (#[trigger] d[i]).round > lcr
    &&& parent_of(d[0]).round <= lcr
}

pub open spec fn rev(s: Seq<Block>) -> Seq<Block> { Seq::new(s.len(), |k: int| s[s.len() - 1 - k]) }

impl Core {
    async fn commit(&mut self, block: Block) -> (res: ConsensusResult<()>)
        requires chain_all(block), old(self).last_committed_round < 0xffff_ffff_ffff_fff0,
        ensures
            res is Ok ==> (
                if old(self).last_committed_round >= block.round {
                    final(self).tx_commit.log() == old(self).tx_commit.log()
                    && final(self).last_committed_round == old(self).last_committed_round
                } else {
                    final(self).last_committed_round == block.round
                    && exists|d: Seq<Block>| final(self).tx_commit.log() == old(self).tx_commit.log() + d
                        && good_delivery(d, block, old(self).last_committed_round)
                }),
    {
        if self.last_committed_round >= block.round {
            return Ok(());
        }

        // Ensure we commit the entire chain. This is needed after view-change.
        let mut to_commit = VecDeque::new();
        let mut parent = block.clone();
        let ghost lcr = self.last_committed_round;
        let ghost log0 = self.tx_commit.log();
        while self.last_committed_round + 1 < parent.round
            invariant
                self.last_committed_round == lcr, lcr < 0xffff_ffff_ffff_fff0, lcr < block.round,
                self.tx_commit.log() == log0,
                chain_all(parent), chain_all(block),
                parent.round > lcr,
                to_commit@.len() == 0 ==> parent == block,
                to_commit@.len() > 0 ==> to_commit@[0] == parent_of(block) && parent == to_commit@.last(),
                forall|i: int| 0 <= i < to_commit@.len() - 1 ==> to_commit@[i + 1] == parent_of(#[trigger] to_commit@[i]),
                forall|i: int| 0 <= i < to_commit@.len() ==> (#[trigger] to_commit@[i]).round > lcr,
            ensures
                parent_of(parent).round <= lcr,
                self.last_committed_round == lcr, self.tx_commit.log() == log0,
                to_commit@.len() > 0 ==> to_commit@[0] == parent_of(block),
                forall|i: int| 0 <= i < to_commit@.len() - 1 ==> to_commit@[i + 1] == parent_of(#[trigger] to_commit@[i]),
                forall|i: int| 0 <= i < to_commit@.len() ==> (#[trigger] to_commit@[i]).round > lcr,
                to_commit@.len() == 0 ==> parent == block,
                to_commit@.len() > 0 ==> parent == to_commit@.last(),
            decreases parent.round
        {
            let ancestor = self
                .synchronizer
                .get_parent_block(&parent)
                .await?
                .expect("We should have all the ancestors by now");
            if ancestor.round <= self.last_committed_round {
                break;
            }
            to_commit.push_back(ancestor.clone());
            parent = ancestor;
        }
        let ghost anc = to_commit@;
        to_commit.push_front(block.clone());

        // Save the last committed block.
        self.last_committed_round = block.round;

        // Send all the newly committed blocks to the node's application layer.
        let ghost gblock = block;
        let ghost dq = to_commit@;
        proof {
            assert(dq =~= seq![gblock] + anc);
            assert forall|i: int| 0 <= i < dq.len() - 1 implies dq[i + 1] == parent_of(#[trigger] dq[i]) by {
                if i > 0 { assert(dq[i + 1] == anc[i]); assert(dq[i] == anc[i - 1]); }
                else { assert(dq[1] == anc[0]); }
            }
        }
        while let Some(block) = to_commit.pop_back()
            invariant
                self.last_committed_round == gblock.round,
                to_commit@.len() <= dq.len(),
                to_commit@ == dq.subrange(0, to_commit@.len() as int),
                self.tx_commit.log() =~= log0 + rev(dq).subrange(0, dq.len() - to_commit@.len()),
            ensures
                to_commit@.len() == 0,
                self.last_committed_round == gblock.round,
                self.tx_commit.log() =~= log0 + rev(dq).subrange(0, dq.len() - to_commit@.len()),
            decreases to_commit@.len()
        {
            if let Err(e) = self.tx_commit.send(block).await {
            }
        }
        proof {
            let d = rev(dq);
            assert(to_commit@.len() == 0);
            assert(rev(dq).subrange(0, dq.len() as int) =~= d);
            assert(self.tx_commit.log() =~= log0 + d);
            assert(good_delivery(d, gblock, lcr));
        }
        Ok(())
    }
}

} // verus!
fn main() {}
