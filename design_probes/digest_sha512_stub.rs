use vstd::prelude::*;
use std::collections::VecDeque;
verus! {

pub struct Digest(pub [u8; 32]);
pub struct PublicKey(pub [u8; 32]);
pub struct QC { pub hash: Digest, pub round: u64 }
pub struct Block { pub qc: QC, pub author: PublicKey, pub round: u64, pub payload: Vec<Digest> }

pub trait VxBytes { spec fn vx_bytes(&self) -> Seq<u8>; }
impl VxBytes for [u8; 32] { open spec fn vx_bytes(&self) -> Seq<u8> { self@ } }
impl VxBytes for [u8; 8] { open spec fn vx_bytes(&self) -> Seq<u8> { self@ } }
impl VxBytes for &Digest { open spec fn vx_bytes(&self) -> Seq<u8> { self.0@ } }

pub struct Sha512 { _x: u8 }
pub struct Output { _x: u8 }
pub uninterp spec fn sha512(s: Seq<u8>) -> Seq<u8>;
impl Sha512 {
    pub uninterp spec fn pre(&self) -> Seq<u8>;
    #[verifier::external_body]
    pub fn new() -> (r: Self) ensures r.pre() == Seq::<u8>::empty() { unimplemented!() }
    #[verifier::external_body]
    pub fn update<T: VxBytes>(&mut self, data: T) ensures final(self).pre() == old(self).pre() + data.vx_bytes() { unimplemented!() }
    #[verifier::external_body]
    pub fn finalize(self) -> (r: Output) ensures r.bytes() == sha512(self.pre()) { unimplemented!() }
}
impl Output { pub uninterp spec fn bytes(&self) -> Seq<u8>; }
#[verifier::external_body]
pub fn vx_first32(o: Output) -> (r: [u8; 32]) ensures r@ == o.bytes().subrange(0, 32) { unimplemented!() }

#[verifier::external_body]
pub fn u64_to_le_bytes(x: u64) -> (r: [u8; 8]) ensures r@ == vstd::bytes::spec_u64_to_le_bytes(x) { unimplemented!() }

pub open spec fn flat(p: Seq<Digest>) -> Seq<u8> decreases p.len() {
    if p.len() == 0 { Seq::empty() } else { flat(p.drop_last()) + p.last().0@ }
}
pub open spec fn block_pre(b: &Block) -> Seq<u8> {
    b.author.0@ + vstd::bytes::spec_u64_to_le_bytes(b.round) + flat(b.payload@) + b.qc.hash.0@
}

impl Block {
    fn digest(&self) -> (r: Digest)
        ensures r.0@ == sha512(block_pre(self)).subrange(0, 32),
    {
        let mut hasher = Sha512::new();
        hasher.update(self.author.0);
        hasher.update(u64_to_le_bytes(self.round));
        for x in &self.payload {
            hasher.update(x);
        }
        hasher.update(&self.qc.hash);
        Digest(vx_first32(hasher.finalize()))
    }
}

fn drain(q: &mut VecDeque<u64>) -> (n: u64)
{
    let mut n = 0u64;
    while let Some(b) = q.pop_back()
        invariant n <= 0
        decreases q@.len()
    {
    }
    n
}

fn clos(v: &mut Vec<(u64, u64)>) {
    
}

} // verus!
fn main() {}
