use vstd::prelude::*;
use std::collections::VecDeque;
verus! {

#[verifier::external_body]
fn nondet() -> u8 { unimplemented!() }

#[verifier::exec_allows_no_decreases_clause]
fn ka(buffer: &mut VecDeque<u64>) -> (e: u8)
{
    let mut pending: VecDeque<u64> = VecDeque::new();
    let mut brk = None;
    'connection: loop
        invariant_except_break brk is None,
        ensures brk is Some,
    {
        while let Some(x) = buffer.pop_front()
            invariant brk is None,
            decreases buffer@.len()
        {
            if x == 0 { continue; }
            if nondet() == 0 {
                pending.push_back(x);
            } else {
                buffer.push_front(x);
                { brk = Some(1u8); break 'connection; }
            }
        }
        if nondet() == 1 { brk = Some(2u8); break 'connection; }
    }
    let error = brk.unwrap();
    while let Some(m) = pending.pop_back()
        decreases pending@.len()
    {
        buffer.push_front(m);
    }
    error
}

} // verus!
fn main() {}
