// Kani harnesses for the crypto crate, compiled into the REAL crate under cfg(kani) via the hook
// `#[cfg(kani)] #[path = "/verif/kani/crypto.rs"] mod verif_kani;` in crypto/src/lib.rs.
// Run by `bin/check C18|C15 --tier thorough` (bin/kani_crypto).  Labels: complete = loop-free over the
// full input domain; bounded = unwinding bound stated.
use super::*;

/// complete: `Signature::flatten` reassembles part1 ++ part2 for all 2^512 signatures.
#[kani::proof]
fn flatten_layout() {
    let part1: [u8; 32] = kani::any();
    let part2: [u8; 32] = kani::any();
    let s = Signature { part1, part2 };
    let f = s.flatten();
    let i: usize = kani::any();
    kani::assume(i < 32);
    assert!(f[i] == part1[i]);
    assert!(f[32 + i] == part2[i]);
}

/// bounded (strings of at most 4 ASCII bytes, unwind 6): decoding a public key never panics.
#[kani::proof]
#[kani::unwind(6)]
fn decode_public_key_total_len4() {
    let bytes: [u8; 4] = kani::any();
    let len: usize = kani::any();
    kani::assume(len <= 4);
    for i in 0..4 { kani::assume(bytes[i] < 128); }
    if let Ok(s) = std::str::from_utf8(&bytes[..len]) {
        let _ = PublicKey::decode_base64(s);
    }
}

/// complete for the given lengths: `Digest::try_from` returns a value or an error for slices of any length 0..=40.
#[kani::proof]
#[kani::unwind(42)]
fn digest_try_from_total() {
    let buf: [u8; 40] = kani::any();
    let len: usize = kani::any();
    kani::assume(len <= 40);
    let r = Digest::try_from(&buf[..len]);
    assert!(r.is_ok() == (len == 32));
    if let Ok(d) = r {
        let i: usize = kani::any();
        kani::assume(i < 32);
        assert!(d.0[i] == buf[i]);
    }
}
