// Replay / failing-input search for the contracts on mempool::batch_maker::BatchMaker (C11, C15).
// Compiled into the real crate only with `--features hotstuff_verif` (add `benchmark` to exercise that configuration).
use super::*;
use tokio::sync::mpsc::channel;
use tokio::time::{timeout, Duration};

/// Executable mirror of C11 on a sequence of transactions: every transaction appears in exactly one sealed batch,
/// byte for byte and in arrival order - in whatever build configuration the crate is compiled.
async fn run_sequence(txs: Vec<Vec<u8>>, batch_size: usize) -> Result<(), String> {
    let (tx_transaction, rx_transaction) = channel(100);
    let (tx_message, mut rx_message) = channel(100);
    let dummy_addresses = vec![(PublicKey::default(), "127.0.0.1:0".parse().unwrap())];
    BatchMaker::spawn(batch_size, /* max_batch_delay */ 50, rx_transaction, tx_message, dummy_addresses);
    for t in &txs {
        if tx_transaction.send(t.clone()).await.is_err() {
            return Err(format!("batch maker died: its transaction channel is closed (sequence lens {:?})", txs.iter().map(|t| t.len()).collect::<Vec<_>>()));
        }
    }
    let mut got: Vec<Vec<u8>> = Vec::new();
    while got.len() < txs.len() {
        match timeout(Duration::from_millis(600), rx_message.recv()).await {
            Ok(Some(QuorumWaiterMessage { batch, handlers: _ })) => match bincode::deserialize(&batch) {
                Ok(MempoolMessage::Batch(b)) => got.extend(b),
                _ => return Err("sealed batch does not deserialize as MempoolMessage::Batch".into()),
            },
            _ => return Err(format!("only {} of {} transactions were sealed (lens {:?})", got.len(), txs.len(), txs.iter().map(|t| t.len()).collect::<Vec<_>>())),
        }
    }
    if got != txs { return Err("sealed transactions differ from the accepted ones (content or order)".into()); }
    Ok(())
}

#[tokio::test]
async fn replay_c11_every_transaction_sealed() {
    let seed: u64 = std::env::var("VERIF_SEED").ok().and_then(|s| s.parse().ok()).unwrap_or(0);
    let mut x = seed.wrapping_mul(6364136223846793005).wrapping_add(1442695040888963407);
    let mut sequences: Vec<Vec<Vec<u8>>> = vec![vec![vec![]], vec![vec![1, 2, 3], vec![], vec![0; 9]], vec![vec![0u8; 300], vec![7u8; 5]]];
    for _ in 0..5 {
        let mut seq = Vec::new();
        for _ in 0..6 {
            x = x.wrapping_mul(6364136223846793005).wrapping_add(1442695040888963407);
            let len = ((x >> 33) % 40) as usize;
            seq.push(vec![(x >> 20) as u8 % 2; len]);
        }
        sequences.push(seq);
    }
    let mut failures = Vec::new();
    for seq in sequences {
        if let Err(e) = run_sequence(seq, 100).await { failures.push(e); }
    }
    for f in &failures { println!("FAILING-INPUT property=C11 {}", f); }
    assert!(failures.is_empty(), "C11 violated on the real code: {:?}", failures);
}

/// C08 / C11 / C12 mirror on the REAL `Processor`: a digest is announced to the consensus only after its batch is in the store, also when
/// the store's command queue is backlogged at that moment (seed C08e wrapped the write in a timeout and announced the digest anyway).
#[tokio::test]
async fn replay_c08_processor_stores_before_announcing() {
    use crate::processor::Processor;
    use ed25519_dalek::{Digest as _, Sha512};
    use std::convert::TryInto as _;
    let path = ".db_verif_replay_c08_processor";
    let _ = std::fs::remove_dir_all(path);
    let mut store = store::Store::new(path).unwrap();
    let (tx_batch, rx_batch) = channel(10);
    let (tx_digest, mut rx_digest) = channel(10);
    Processor::spawn(store.clone(), rx_batch, tx_digest);
    let mut failures = Vec::new();
    for round in 0..3u8 {
        // backlog: 400 writers from other handles, each holding the (single-threaded) runtime for a moment after its write was accepted
        for i in 0..400u32 {
            let mut s = store.clone();
            tokio::spawn(async move {
                s.write(vec![9, round, (i >> 8) as u8, i as u8], vec![0u8; 16]).await;
                std::thread::sleep(std::time::Duration::from_millis(1));
            });
        }
        tokio::task::yield_now().await;
        let batch: Vec<u8> = (0..64u8).map(|b| b ^ round).collect();
        tx_batch.send(batch.clone()).await.unwrap();
        let expected = crypto::Digest(Sha512::digest(&batch).as_slice()[..32].try_into().unwrap());
        match timeout(Duration::from_secs(20), rx_digest.recv()).await {
            Ok(Some(d)) if d == expected => {
                // the consensus may use the digest from now on: a read issued now must find the batch
                match store.read(d.to_vec()).await {
                    Ok(Some(v)) if v == batch => (),
                    other => failures.push(format!("store backlogged by 400 queued writes: digest announced, but read returns {:?}", other.map(|o| o.map(|v| v.len())))),
                }
            }
            other => failures.push(format!("processor announced {:?} instead of the batch's digest", other.map(|o| o.is_some()))),
        }
    }
    for f in failures.iter().take(3) { println!("FAILING-INPUT property=C08 {}", f); }
    assert!(failures.is_empty(), "processor announces digests of batches that are not stored: {:?}", failures);
}
