// Replay / failing-input search for the contracts on the crypto crate (C15 decoder totality, C18 round trips).
// Compiled into the real crate only with `--features hotstuff_verif`.
use super::*;
use rand::rngs::StdRng;
use rand::{RngCore, SeedableRng as _};
use std::panic::catch_unwind;

fn seed() -> u64 { std::env::var("VERIF_SEED").ok().and_then(|s| s.parse().ok()).unwrap_or(0) }

/// Decoding of keys is total: a value or an error for every input string (C15).
#[test]
fn replay_c15_decoders_total() {
    let alphabet: Vec<char> = "ABCDEFGHIJKLMNOPQRSTUVWXYZabcdefghijklmnopqrstuvwxyz0123456789+/=!".chars().collect();
    let mut inputs: Vec<String> = vec!["".into(), "A".into(), "AA".into(), "AAA".into(), "AAAA".into(), "AA==".into(), "=".into()];
    let mut rng = StdRng::seed_from_u64(seed());
    for len in 0..100usize {
        for _ in 0..4 {
            let s: String = (0..len).map(|_| alphabet[(rng.next_u32() as usize) % alphabet.len()]).collect();
            inputs.push(s);
        }
        inputs.push("A".repeat(len));
    }
    let mut failures = Vec::new();
    for s in &inputs {
        let s1 = s.clone();
        if catch_unwind(move || { let _ = PublicKey::decode_base64(&s1); }).is_err() {
            failures.push(format!("PublicKey::decode_base64({:?}) panics", s));
        }
        let s2 = s.clone();
        if catch_unwind(move || { let _ = SecretKey::decode_base64(&s2); }).is_err() {
            failures.push(format!("SecretKey::decode_base64({:?}) panics", s));
        }
    }
    for f in failures.iter().take(5) { println!("FAILING-INPUT property=C15 {}", f); }
    assert!(failures.is_empty(), "{} panicking decoder inputs, e.g. {:?}", failures.len(), &failures[..failures.len().min(3)]);
}

/// Keys survive encode -> decode unchanged (C18), through the string form and through bincode/serde.
#[test]
fn replay_c18_key_round_trip() {
    let mut rng = StdRng::seed_from_u64(seed());
    for _ in 0..200 {
        let mut pk = [0u8; 32];
        rng.fill_bytes(&mut pk);
        let k = PublicKey(pk);
        assert_eq!(PublicKey::decode_base64(&k.encode_base64()).unwrap(), k);
        let mut sk = [0u8; 64];
        rng.fill_bytes(&mut sk);
        let s = SecretKey(sk);
        assert_eq!(SecretKey::decode_base64(&s.encode_base64()).unwrap().0.to_vec(), sk.to_vec());
    }
}
