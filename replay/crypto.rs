// Replay / failing-input search for the contracts on the crypto crate (C15 decoder totality, C18 round trips).
// Compiled into the real crate only with `--features hotstuff_verif`.
use super::*;
use rand::rngs::StdRng;
use rand::{RngCore, SeedableRng as _};
use std::panic::catch_unwind;

fn seed() -> u64 { std::env::var("VERIF_SEED").ok().and_then(|s| s.parse().ok()).unwrap_or(0) }

/// Decoding of keys is total: a value or an error for every input string (C15).
#[test]
fn replay_c15_decoders_total() {
    let alphabet: Vec<char> = "ABCDEFGHIJKLMNOPQRSTUVWXYZabcdefghijklmnopqrstuvwxyz0123456789+/=!".chars().collect();
    let mut inputs: Vec<String> = vec!["".into(), "A".into(), "AA".into(), "AAA".into(), "AAAA".into(), "AA==".into(), "=".into()];
    let mut rng = StdRng::seed_from_u64(seed());
    for len in 0..100usize {
        for _ in 0..4 {
            let s: String = (0..len).map(|_| alphabet[(rng.next_u32() as usize) % alphabet.len()]).collect();
            inputs.push(s);
        }
        inputs.push("A".repeat(len));
    }
    let mut failures = Vec::new();
    for s in &inputs {
        let s1 = s.clone();
        if catch_unwind(move || { let _ = PublicKey::decode_base64(&s1); }).is_err() {
            failures.push(format!("PublicKey::decode_base64({:?}) panics", s));
        }
        let s2 = s.clone();
        if catch_unwind(move || { let _ = SecretKey::decode_base64(&s2); }).is_err() {
            failures.push(format!("SecretKey::decode_base64({:?}) panics", s));
        }
    }
    for f in failures.iter().take(5) { println!("FAILING-INPUT property=C15 {}", f); }
    assert!(failures.is_empty(), "{} panicking decoder inputs, e.g. {:?}", failures.len(), &failures[..failures.len().min(3)]);
}

/// Keys survive encode -> decode unchanged (C18), through the string form and through bincode/serde.
#[test]
fn replay_c18_key_round_trip() {
    let mut rng = StdRng::seed_from_u64(seed());
    for _ in 0..200 {
        let mut pk = [0u8; 32];
        rng.fill_bytes(&mut pk);
        let k = PublicKey(pk);
        assert_eq!(PublicKey::decode_base64(&k.encode_base64()).unwrap(), k);
        let mut sk = [0u8; 64];
        rng.fill_bytes(&mut sk);
        let s = SecretKey(sk);
        assert_eq!(SecretKey::decode_base64(&s.encode_base64()).unwrap().0.to_vec(), sk.to_vec());
    }
}

/// Batch verification accepts exactly when every member verifies individually (C18) - for every batch size incl. 0 and 1,
/// every position of a corrupted member, and batches in which one signer occurs several times.
#[test]
fn replay_c18_batch_agrees_with_individual() {
    let mut rng = StdRng::seed_from_u64(seed());
    let keys: Vec<(PublicKey, SecretKey)> = (0..4).map(|_| generate_keypair(&mut rng)).collect();
    let mut d = [0u8; 32];
    rng.fill_bytes(&mut d);
    let digest = Digest(d);
    let mut other = [0u8; 32];
    rng.fill_bytes(&mut other);
    let other_digest = Digest(other);
    let mut failures = Vec::new();
    for size in 0..6usize {
        for corrupt in 0..=size {            // corrupt == size: no corrupted member
            for repeat in 0..2 {
                let mut batch: Vec<(PublicKey, Signature)> = Vec::new();
                for i in 0..size {
                    let who = if repeat == 1 { i % 2 } else { i % 4 };       // repeat == 1: signers occur several times
                    let (pk, sk) = &keys[who];
                    let sig = if i == corrupt { Signature::new(&other_digest, sk) } else { Signature::new(&digest, sk) };
                    batch.push((*pk, sig));
                }
                let individually = batch.iter().all(|(pk, sig)| sig.verify(&digest, pk).is_ok());
                let batched = Signature::verify_batch(&digest, &batch).is_ok();
                if individually != batched {
                    failures.push(format!("batch of {} (signers {}), corrupted member at position {}: verify_batch={} but individual verification={}",
                        size, if repeat == 1 { "repeating" } else { "distinct" }, if corrupt == size { "none".to_string() } else { corrupt.to_string() }, batched, individually));
                }
            }
        }
    }
    for f in failures.iter().take(4) { println!("FAILING-INPUT property=C18 {}", f); }
    assert!(failures.is_empty(), "{} disagreeing batches", failures.len());
}

/// A signature verifies under the key and digest it was made for and under nothing else (C18): every single-bit change
/// of the signature, of the digest and of the public key is rejected by `verify`, and by `verify_batch` when the changed
/// signature sits next to a valid one.
#[test]
fn replay_c18_every_bit_matters() {
    let mut rng = StdRng::seed_from_u64(seed());
    let (pk, sk) = generate_keypair(&mut rng);
    let (pk2, sk2) = generate_keypair(&mut rng);
    let mut d = [0u8; 32];
    rng.fill_bytes(&mut d);
    let digest = Digest(d);
    let sig = Signature::new(&digest, &sk);
    let sig2 = Signature::new(&digest, &sk2);
    let mut failures = Vec::new();
    if sig.verify(&digest, &pk).is_err() {
        failures.push("an honest signature does not verify under its own key and digest".to_string());
    }
    let flat: Vec<u8> = sig.part1.iter().chain(sig.part2.iter()).cloned().collect();
    for bit in 0..512usize {
        let mut f = flat.clone();
        f[bit / 8] ^= 1 << (bit % 8);
        let mut changed = sig.clone();
        changed.part1.copy_from_slice(&f[..32]);
        changed.part2.copy_from_slice(&f[32..]);
        if changed.verify(&digest, &pk).is_ok() {
            failures.push(format!("signature with bit {} flipped is accepted by verify", bit));
        }
        if Signature::verify_batch(&digest, &[(pk, changed), (pk2, sig2.clone())]).is_ok() {
            failures.push(format!("signature with bit {} flipped is accepted by verify_batch next to a valid member", bit));
        }
    }
    for bit in 0..256usize {
        let mut dd = d;
        dd[bit / 8] ^= 1 << (bit % 8);
        if sig.verify(&Digest(dd), &pk).is_ok() {
            failures.push(format!("signature accepted for a digest with bit {} flipped", bit));
        }
        let mut k = pk.0;
        k[bit / 8] ^= 1 << (bit % 8);
        if sig.verify(&digest, &PublicKey(k)).is_ok() {
            failures.push(format!("signature accepted under a public key with bit {} flipped", bit));
        }
    }
    for f in failures.iter().take(4) { println!("FAILING-INPUT property=C18 {}", f); }
    assert!(failures.is_empty(), "{} single-bit changes accepted", failures.len());
}
