// Replay / failing-input search for the JSON file layer of C18 ("keys survive ... also through the JSON key and committee files").
// Compiled into the real `node` crate only with `--features hotstuff_verif`; drives the REAL `Export::write` / `Export::read`.
use super::*;
use consensus::Committee as CC;
use mempool::Committee as MC;

fn committee(keys: &[PublicKey]) -> Committee {
    let consensus = CC::new(keys.iter().enumerate().map(|(i, k)| (*k, 1 + i as u32, format!("127.0.0.1:{}", 6100 + i).parse().unwrap())).collect(), 1);
    let mempool = MC::new(
        keys.iter().enumerate().map(|(i, k)| (*k, 1 + i as u32, format!("127.0.0.1:{}", 6200 + i).parse().unwrap(), format!("127.0.0.1:{}", 6300 + i).parse().unwrap())).collect(),
        1,
    );
    Committee { consensus, mempool }
}

fn same_committee(a: &Committee, b: &Committee) -> bool {
    serde_json::to_value(a).unwrap() == serde_json::to_value(b).unwrap()
}

/// Keys and committees come back unchanged from their JSON files: fresh path, a path that already holds an earlier
/// (equally long, longer or shorter) export, and several generations on one path.
#[test]
fn replay_c18_json_files_round_trip() {
    let seed: u64 = std::env::var("VERIF_SEED").ok().and_then(|s| s.parse().ok()).unwrap_or(0);
    let mut rng = StdRng::seed_from_u64(seed ^ 0x18);
    let mut failures = Vec::new();
    let dir = std::env::temp_dir().join(format!("verif_replay_node_config_{}", std::process::id()));
    let _ = fs::remove_dir_all(&dir);
    fs::create_dir_all(&dir).unwrap();
    let keys: Vec<(PublicKey, SecretKey)> = (0..7).map(|_| generate_keypair(&mut rng)).collect();
    // key files: fresh path, then the same path rewritten with another key pair (twice)
    let key_path = dir.join("key.json");
    let key_path = key_path.to_str().unwrap();
    for (generation, (name, secret)) in keys.iter().take(3).enumerate() {
        let s = Secret { name: *name, secret: SecretKey::decode_base64(&secret.encode_base64()).unwrap() };
        if let Err(e) = s.write(key_path) {
            failures.push(format!("key file, write #{}: {}", generation, e));
            continue;
        }
        match Secret::read(key_path) {
            Ok(back) => {
                if back.name != *name || back.secret.encode_base64() != secret.encode_base64() {
                    failures.push(format!("key file, write #{} to the same path: the key pair read back differs from the one written", generation));
                }
            }
            Err(e) => failures.push(format!("key file, write #{} to the same path: the file written cannot be read back: {}", generation, e)),
        }
    }
    // every valid JSON encoding of a key decodes to that key, whatever the reader: a streaming reader (no borrowed strings), a
    // `Value` tree, and a file whose writer escaped `/` as `\/` (a legal JSON escape; base64 keys contain `/`)
    for (name, secret) in keys.iter() {
        let s = Secret { name: *name, secret: SecretKey::decode_base64(&secret.encode_base64()).unwrap() };
        let text = serde_json::to_string_pretty(&s).unwrap();
        let same = |back: &Secret| back.name == *name && back.secret.encode_base64() == secret.encode_base64();
        match serde_json::from_reader::<_, Secret>(std::io::Cursor::new(text.clone().into_bytes())) {
            Ok(back) => if !same(&back) { failures.push("key file read through a streaming reader: a different key pair is read back".to_string()); },
            Err(e) => failures.push(format!("key file read through a streaming reader (serde_json::from_reader) cannot be decoded: {}", e)),
        }
        match serde_json::from_value::<Secret>(serde_json::to_value(&s).unwrap()) {
            Ok(back) => if !same(&back) { failures.push("key pair through serde_json::Value: a different key pair is read back".to_string()); },
            Err(e) => failures.push(format!("key pair through serde_json::Value cannot be decoded: {}", e)),
        }
        let escaped = text.replace('/', "\\/");
        match serde_json::from_slice::<Secret>(escaped.as_bytes()) {
            Ok(back) => if !same(&back) { failures.push("key file with `/` escaped as `\\/`: a different key pair is read back".to_string()); },
            Err(e) => failures.push(format!("key file whose writer escaped `/` as `\\/` cannot be decoded: {}", e)),
        }
    }
    // committee files: sizes 4, 7, 2, 5 exported one after the other to the same path, and each to a fresh path
    let names: Vec<PublicKey> = keys.iter().map(|(k, _)| *k).collect();
    let same_path = dir.join("committee.json");
    let same_path = same_path.to_str().unwrap();
    for (generation, size) in [4usize, 7, 2, 5].iter().enumerate() {
        let c = committee(&names[..*size]);
        let fresh = dir.join(format!("committee_{}.json", generation));
        for (what, path) in [("a fresh path", fresh.to_str().unwrap()), ("a path holding the previous export", same_path)] {
            if let Err(e) = c.write(path) {
                failures.push(format!("committee of {} members to {}: {}", size, what, e));
                continue;
            }
            match Committee::read(path) {
                Ok(back) => if !same_committee(&back, &c) { failures.push(format!("committee of {} members written to {}: a different committee is read back", size, what)); },
                Err(e) => failures.push(format!("committee of {} members written to {} cannot be read back: {}", size, what, e)),
            }
        }
    }
    let _ = fs::remove_dir_all(&dir);
    for f in failures.iter().take(4) { println!("FAILING-INPUT property=C18 {}", f); }
    assert!(failures.is_empty(), "C18 (JSON file layer) violated on the real code: {} findings", failures.len());
}
