// Replay for the panic-freedom obligations (C15/C07) on consensus::helper::Helper::run.
// Compiled into the real crate only with `--features hotstuff_verif`.
use super::*;
use crate::common::{block, committee_with_base_port, keys, listener};
use crypto::Hash as _;
use std::fs;
use tokio::sync::mpsc::channel;
use tokio::time::{timeout, Duration};

/// A SyncRequest naming a key of the shared store that holds mempool data (a serialized batch, not a
/// block) must not take the helper down: a following genuine sync request must still be answered.
#[tokio::test]
async fn replay_c15_helper_foreign_store_value() {
    let (tx_request, rx_request) = channel(10);
    let (requestor, _) = keys().pop().unwrap();
    let committee = committee_with_base_port(13_500);
    let path = ".db_verif_replay_helper";
    let _ = fs::remove_dir_all(path);
    let mut store = Store::new(path).unwrap();

    // a mempool batch in the shared store (what mempool::Processor writes): not a serialized Block
    let foreign_key = Digest([7u8; 32]);
    store.write(foreign_key.to_vec(), vec![0u8, 1, 2, 3, 4, 5]).await;
    // and a genuine block
    let digest = block().digest();
    store.write(digest.to_vec(), bincode::serialize(&block()).unwrap()).await;

    Helper::spawn(committee.clone(), store, rx_request);
    let address = committee.address(&requestor).unwrap();
    let expected = Bytes::from(bincode::serialize(&ConsensusMessage::Propose(block())).unwrap());
    let handle = listener(address, Some(expected));

    // hostile request first, genuine request second
    let _ = tx_request.send((foreign_key, requestor)).await;
    tokio::time::sleep(Duration::from_millis(50)).await;
    let second = tx_request.send((digest, requestor)).await;
    let answered = timeout(Duration::from_millis(1500), handle).await;
    let _ = fs::remove_dir_all(path);
    if second.is_err() || answered.is_err() {
        println!("FAILING-INPUT property=C15 SyncRequest(digest=[7;32] holding 6 non-block bytes) kills consensus::Helper; the following genuine request gets no reply");
    }
    assert!(second.is_ok(), "helper task died: its request channel is closed");
    assert!(answered.is_ok(), "helper did not answer a genuine sync request after a hostile one");
}
