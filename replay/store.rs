// Replay / failing-input search for the contracts on the store task (C16).
// Compiled into the real crate only with `--features hotstuff_verif`; drives the REAL store through its handles.
use super::*;
use std::collections::HashMap as Model;
use std::fs;
use tokio::task::JoinHandle;

/// The store task handles commands strictly in order, so after a few read round trips through the same task every
/// earlier command has been handled: anything that should have completed by then and has not, never will.
async fn barrier(store: &mut Store) {
    for _ in 0..5 {
        let _ = store.read(vec![255u8, 255, 255]).await;
    }
}

async fn completes_now<T>(h: &mut JoinHandle<T>, store: &mut Store) -> Option<T> {
    tokio::select! {
        biased;
        r = &mut *h => r.ok(),
        _ = barrier(store) => None,
    }
}

/// Key shapes: keys below 3 are one byte long; the others extend each other at lengths around the 8-byte and 32-byte
/// (digest) boundaries, so that two different keys share a long common prefix.
fn key_of(k: u8) -> Vec<u8> {
    match k {
        0..=2 => vec![k],
        3 => vec![7u8; 8],
        4 => { let mut x = vec![7u8; 8]; x.push(1); x }
        5 => vec![7u8; 16],
        6 => vec![7u8; 32],
        7 => { let mut x = vec![7u8; 32]; x.extend_from_slice(&[0, 0, 0, 1]); x }
        _ => { let mut x = vec![7u8; 32]; x.extend_from_slice(&[0u8; 8]); x }
    }
}

/// Executable mirror of C16 over one operation sequence: reads see the latest write; a notify-read completes at once
/// if the key was written earlier, otherwise on the first later write - for every waiter.
/// `burst` > 0: before every operation another handle issues that many writes on unrelated keys, so the operation is
/// issued against a full command queue (capacity 100) - the "several concurrent handles" part of the quantifier.
async fn run_ops(ops: &[(u8, u8, u8)], tag: &str, burst: usize) -> Result<(), String> {
    let path = format!(".db_verif_replay_store_{}", tag);
    let _ = fs::remove_dir_all(&path);
    let mut store = Store::new(&path).unwrap();
    let mut model: Model<Vec<u8>, Vec<u8>> = Model::new();
    let mut waiting: Vec<(Vec<u8>, JoinHandle<Vec<u8>>)> = Vec::new();
    let mut other = store.clone();
    for (n, (op, k, v)) in ops.iter().enumerate() {
        let key = key_of(*k);
        for i in 0..burst {
            other.write(vec![254u8, i as u8], vec![n as u8]).await;
        }
        match op % 4 {
            0 => {
                let value = vec![*v, n as u8];
                store.write(key.clone(), value.clone()).await;
                model.insert(key.clone(), value.clone());
                let mut still = Vec::new();
                for (wk, mut h) in waiting.drain(..) {
                    if wk == key {
                        match completes_now(&mut h, &mut store).await {
                            Some(got) if got == value => (),
                            Some(got) => return Err(format!("op {}: waiter on key {:?} got {:?}, expected the written {:?}", n, key, got, value)),
                            None => return Err(format!("op {}: a notify-read registered before the write of key {:?} was not answered by it", n, key)),
                        }
                    } else {
                        still.push((wk, h));
                    }
                }
                waiting = still;
            }
            1 => {
                let got = store.read(key.clone()).await.map_err(|e| e.to_string())?;
                if got != model.get(&key).cloned() {
                    return Err(format!("op {}: read({:?}) = {:?}, latest write is {:?}", n, key, got, model.get(&key)));
                }
            }
            3 => {
                // a waiter that gives up: its notify-read is registered with the store task, then the waiting task is dropped
                // (what PayloadWaiter / the synchronizers do on Cleanup).  Later writes must still serve every other waiter.
                let mut s2 = store.clone();
                let k2 = key.clone();
                let h = tokio::spawn(async move { let _ = s2.notify_read(k2).await; });
                barrier(&mut store).await;
                h.abort();
                let _ = h.await;
            }
            _ => {
                let mut s2 = store.clone();
                let k2 = key.clone();
                let mut h = tokio::spawn(async move { s2.notify_read(k2).await.unwrap() });
                match model.get(&key) {
                    Some(expected) => match completes_now(&mut h, &mut store).await {
                        Some(got) if &got == expected => (),
                        Some(got) => return Err(format!("op {}: notify_read({:?}) = {:?}, expected {:?}", n, key, got, expected)),
                        None => return Err(format!("op {}: notify_read({:?}) did not complete although the key was written earlier", n, key)),
                    },
                    None => {
                        if completes_now(&mut h, &mut store).await.is_some() {
                            return Err(format!("op {}: notify_read({:?}) completed although the key was never written", n, key));
                        }
                        waiting.push((key, h));
                    }
                }
            }
        }
    }
    let _ = fs::remove_dir_all(&path);
    Ok(())
}

#[tokio::test]
async fn replay_c16_op_sequences() {
    let seed: u64 = std::env::var("VERIF_SEED").ok().and_then(|s| s.parse().ok()).unwrap_or(0);
    let mut x = seed.wrapping_mul(6364136223846793005).wrapping_add(1442695040888963407);
    // (op, key, value): op%4 = 0 write, 1 read, 2 notify-read, 3 notify-read whose waiter gives up; keys from a tiny set so that they overlap
    let mut sequences: Vec<Vec<(u8, u8, u8)>> = vec![
        vec![(2, 1, 0), (0, 1, 7), (2, 1, 0), (1, 1, 0)],
        vec![(2, 1, 0), (2, 1, 0), (2, 2, 0), (0, 1, 3), (0, 2, 4), (2, 1, 0), (0, 1, 5), (1, 1, 0), (2, 1, 0)],
        vec![(0, 1, 1), (0, 1, 2), (1, 1, 0), (2, 1, 0)],
        // a waiter that gave up sits in front of live ones
        vec![(3, 1, 0), (2, 1, 0), (2, 1, 0), (0, 1, 9), (1, 1, 0)],
        vec![(2, 2, 0), (3, 2, 0), (2, 2, 0), (3, 2, 0), (0, 2, 5), (2, 2, 0)],
        // keys that extend each other: a write to one must not be visible under another
        vec![(0, 6, 1), (1, 7, 0), (1, 8, 0), (0, 7, 2), (1, 6, 0), (1, 8, 0), (0, 3, 3), (1, 4, 0), (1, 5, 0), (0, 5, 4), (1, 3, 0), (1, 6, 0)],
        vec![(2, 7, 0), (0, 6, 1), (2, 3, 0), (0, 5, 2), (0, 7, 3), (0, 3, 4), (1, 7, 0), (1, 3, 0)],
    ];
    for _ in 0..12 {
        let mut seq = Vec::new();
        for _ in 0..14 {
            x = x.wrapping_mul(6364136223846793005).wrapping_add(1442695040888963407);
            // half of the random sequences use the prefix-related key shapes
            let nkeys = if sequences.len() % 2 == 0 { 3 } else { 9 };
            seq.push(((x >> 40) as u8, ((x >> 33) % nkeys) as u8, (x >> 20) as u8));
        }
        sequences.push(seq);
    }
    let mut failures = Vec::new();
    for (i, seq) in sequences.iter().enumerate() {
        // every third sequence (and the three hand-written ones a second time) runs behind a backlog
        let burst = if i % 3 == 2 { 130 } else { 0 };
        let mut r = run_ops(seq, &i.to_string(), burst).await;
        if r.is_ok() && i < 7 {
            r = run_ops(seq, &format!("{}b", i), 130).await;
        }
        if let Err(e) = r {
            failures.push(format!("backlog {} ops {:?}: {}", burst.max(if i < 7 { 130 } else { 0 }), seq.iter().map(|(o, k, _)| (["write", "read", "notify", "notify-then-give-up"][(*o % 4) as usize], key_of(*k).len(), *k)).collect::<Vec<_>>(), e));
        }
    }
    for f in failures.iter().take(4) { println!("FAILING-INPUT property=C16 {}", f); }
    assert!(failures.is_empty(), "C16 violated on the real code ({} sequences)", failures.len());
}

/// "Data written before the store is reopened is still there" (C16).  Not provable by contract (rocksdb durability is an
/// assumption on the dependency); this drives the REAL store: write, drop every handle (the store task ends and releases the
/// database lock), reopen the same path, read.  Smoke evidence only.
#[tokio::test]
async fn replay_c16_reopen_keeps_data() {
    let path = ".db_verif_replay_store_reopen";
    let _ = fs::remove_dir_all(path);
    let mut failures = Vec::new();
    let mut model: Model<Vec<u8>, Vec<u8>> = Model::new();
    for generation in 0..3u8 {
        // the previous generation's task may still hold the lock for a moment after its last handle was dropped
        let mut store = None;
        for _ in 0..200 {
            match Store::new(path) {
                Ok(s) => { store = Some(s); break; }
                Err(_) => { std::thread::sleep(std::time::Duration::from_millis(5)); tokio::task::yield_now().await; }
            }
        }
        let mut store = match store {
            Some(s) => s,
            None => { failures.push(format!("generation {}: the store could not be reopened", generation)); break; }
        };
        for (k, v) in model.iter() {
            match store.read(k.clone()).await {
                Ok(Some(got)) if &got == v => (),
                other => failures.push(format!("generation {}: key {:?} written before the reopen reads {:?}, expected {:?}", generation, k, other.ok(), v)),
            }
        }
        for i in 0..20u8 {
            let (k, v) = (vec![i % 7, generation % 2], vec![generation, i]);
            store.write(k.clone(), v.clone()).await;
            model.insert(k, v);
        }
        barrier(&mut store).await;   // every write above has been handled by the store task
        drop(store);
    }
    let _ = fs::remove_dir_all(path);
    for f in failures.iter().take(4) { println!("FAILING-INPUT property=C16 {}", f); }
    assert!(failures.is_empty(), "C16 (reopen) violated on the real code: {} findings", failures.len());
}
