// Replay / failing-input search for the contracts on consensus::core::Core.
// Compiled into the real `consensus` crate only with `--features hotstuff_verif` (see MANIFEST.hooks);
// it drives the REAL Core task through its real channels.  It never decides a property: bin/check
// runs it after the verifier has failed an obligation, to attach a concrete input to the report.
use super::*;
use crate::common::{committee, keys};
use crypto::{SecretKey, Signature};
use std::fs;
use tokio::sync::mpsc::channel;
use tokio::time::{timeout as tokio_timeout, Duration};

fn spawn_core(name: PublicKey, secret: SecretKey, store_path: &str) -> (Sender<ConsensusMessage>, Receiver<Block>) {
    let (tx_core, rx_core) = channel(100);
    let (tx_loopback, rx_loopback) = channel(100);
    let (tx_proposer, mut rx_proposer) = channel(100);
    let (tx_mempool, mut rx_mempool) = channel(100);
    let (tx_commit, rx_commit) = channel(1000);
    let signature_service = SignatureService::new(secret);
    let _ = fs::remove_dir_all(store_path);
    let store = Store::new(store_path).unwrap();
    let leader_elector = LeaderElector::new(committee());
    let mempool_driver = MempoolDriver::new(store.clone(), tx_mempool, tx_loopback.clone());
    let synchronizer = Synchronizer::new(name, committee(), store.clone(), tx_loopback, 100_000);
    tokio::spawn(async move { loop { rx_mempool.recv().await; } });
    tokio::spawn(async move { loop { rx_proposer.recv().await; } });
    Core::spawn(name, committee(), signature_service, store, leader_elector, mempool_driver, synchronizer,
                /* timeout_delay */ 1_000_000, rx_core, rx_loopback, tx_proposer, tx_commit);
    (tx_core, rx_commit)
}

fn leader_keys(round: Round) -> (PublicKey, SecretKey) {
    let leader = LeaderElector::new(committee()).get_leader(round);
    keys().into_iter().find(|(pk, _)| *pk == leader).unwrap()
}

fn qc_for(block: &Block) -> QC {
    let qc = QC { hash: block.digest(), round: block.round, votes: Vec::new() };
    let digest = qc.digest();
    let votes = keys().iter().map(|(pk, sk)| (*pk, Signature::new(&digest, sk))).collect();
    QC { votes, ..qc }
}

fn tc_for(round: Round, high_qc: &QC) -> TC {
    let votes = keys().into_iter().take(3)
        .map(|(pk, sk)| { let t = Timeout::new_from_key(high_qc.clone(), round, pk, &sk); (pk, t.signature, high_qc.round) })
        .collect();
    TC { round, votes }
}

/// A valid chain with the given (strictly increasing, >= 1) rounds; a block following a gap carries the TC
/// of the preceding round, as a view change produces it.
fn chain_with_rounds(rounds: &[Round]) -> Vec<Block> {
    let mut latest_qc = QC::genesis();
    let mut prev_round = 0;
    let mut out = Vec::new();
    for r in rounds {
        let (pk, sk) = leader_keys(*r);
        let mut block = Block::new_from_key(latest_qc.clone(), pk, *r, Vec::new(), &sk);
        if *r != prev_round + 1 { block.tc = Some(tc_for(*r - 1, &latest_qc)); }
        latest_qc = qc_for(&block);
        prev_round = *r;
        out.push(block);
    }
    out
}

/// Executable mirror of C02's postcondition on the whole delivery log: each delivered block's parent is the
/// block delivered just before it (genesis for the first), rounds strictly increase, genesis is never delivered.
fn check_delivery(delivered: &[Block]) -> Result<(), String> {
    let mut prev: Option<&Block> = None;
    for b in delivered {
        if b.round == 0 { return Err(format!("genesis placeholder delivered; rounds={:?}", delivered.iter().map(|x| x.round).collect::<Vec<_>>())); }
        match prev {
            None => if b.qc != QC::genesis() { return Err(format!("first delivered block B{} is not a child of genesis", b.round)); },
            Some(p) => if b.qc.hash != p.digest() || b.round <= p.round {
                return Err(format!("B{} delivered right after B{} which is not its parent; rounds={:?}", b.round, p.round, delivered.iter().map(|x| x.round).collect::<Vec<_>>()));
            }
        }
        prev = Some(b);
    }
    Ok(())
}

async fn run_chain(rounds: &[Round], tag: &str) -> Vec<Block> {
    let (pk, sk) = keys().pop().unwrap();
    let path = format!(".db_verif_replay_{}", tag);
    let (tx_core, mut rx_commit) = spawn_core(pk, sk, &path);
    for block in chain_with_rounds(rounds) {
        tx_core.send(ConsensusMessage::Propose(block)).await.unwrap();
    }
    let mut delivered = Vec::new();
    while let Ok(Some(b)) = tokio_timeout(Duration::from_millis(300), rx_commit.recv()).await { delivered.push(b); }
    let _ = fs::remove_dir_all(&path);
    delivered
}

fn chain_shapes() -> Vec<Vec<Round>> {
    // deterministic family of chain shapes: every gap pattern over 6 blocks with gaps in {1,2,3}, seeded rotation
    let seed: u64 = std::env::var("VERIF_SEED").ok().and_then(|s| s.parse().ok()).unwrap_or(0);
    let mut shapes = vec![vec![1, 3, 5, 6, 7], vec![2, 3, 4], vec![1, 2, 3, 4], vec![1, 2, 4, 5, 6], vec![1, 4, 5, 7, 8, 9]];
    let mut x = seed.wrapping_mul(6364136223846793005).wrapping_add(1442695040888963407);
    for _ in 0..6 {
        let mut r = 0; let mut v = Vec::new();
        for _ in 0..6 { x = x.wrapping_mul(6364136223846793005).wrapping_add(1442695040888963407); r += 1 + ((x >> 33) % 3); v.push(r); }
        shapes.push(v);
    }
    shapes
}

#[tokio::test]
async fn replay_c02_delivery_order() {
    let mut failures = Vec::new();
    for (i, rounds) in chain_shapes().iter().enumerate() {
        let delivered = run_chain(rounds, &format!("c02_{}", i)).await;
        if let Err(e) = check_delivery(&delivered) {
            failures.push(format!("chain rounds {:?}: {}", rounds, e));
        }
    }
    for f in &failures { println!("FAILING-INPUT property=C02 {}", f); }
    assert!(failures.is_empty(), "C02 violated on the real code: {:?}", failures);
}
