// Replay / failing-input search for the contracts on consensus::messages (C04: `verify` returning Ok implies validity).
// Compiled into the real crate only with `--features hotstuff_verif`.
use super::*;
use crate::common::{committee, keys};
use crypto::{generate_keypair, SecretKey};
use rand::rngs::StdRng;
use rand::{RngCore, SeedableRng as _};
use std::convert::TryInto as _;

fn seed() -> u64 { std::env::var("VERIF_SEED").ok().and_then(|s| s.parse().ok()).unwrap_or(0) }

fn digest_of(parts: &[&[u8]]) -> Digest {
    let mut h = Sha512::new();
    for p in parts { h.update(p); }
    Digest(h.finalize().as_slice()[..32].try_into().unwrap())
}

/// Independent reference for "distinct committee members with positive stake whose stake reaches the quorum".
fn quorum_backed(names: &[PublicKey], committee: &Committee) -> bool {
    let mut seen: Vec<PublicKey> = Vec::new();
    let mut weight: u64 = 0;
    for n in names {
        if seen.contains(n) { return false; }
        seen.push(*n);
        match committee.authorities.get(n) { Some(a) if a.stake > 0 => weight += a.stake as u64, _ => return false }
    }
    let total: u64 = committee.authorities.values().map(|a| a.stake as u64).sum();
    weight >= 2 * total / 3 + 1
}

/// Executable mirror of valid_qc: every signature verifies INDIVIDUALLY for H(hash || round) under its signer.
fn reference_valid_qc(qc: &QC, committee: &Committee) -> bool {
    let names: Vec<PublicKey> = qc.votes.iter().map(|(n, _)| *n).collect();
    let d = digest_of(&[&qc.hash.0, &qc.round.to_le_bytes()]);
    quorum_backed(&names, committee) && qc.votes.iter().all(|(n, s)| s.verify(&d, n).is_ok())
}

/// Executable mirror of valid_tc: entry i is signed over H(tc.round || high_qc_round_i).
fn reference_valid_tc(tc: &TC, committee: &Committee) -> bool {
    let names: Vec<PublicKey> = tc.votes.iter().map(|(n, _, _)| *n).collect();
    quorum_backed(&names, committee)
        && tc.votes.iter().all(|(n, s, r)| s.verify(&digest_of(&[&tc.round.to_le_bytes(), &r.to_le_bytes()]), n).is_ok())
}

fn sign(d: &Digest, sk: &SecretKey) -> Signature { Signature::new(d, sk) }

fn valid_qc(hash: Digest, round: Round, signers: &[usize]) -> QC {
    let d = digest_of(&[&hash.0, &round.to_le_bytes()]);
    QC { hash, round, votes: signers.iter().map(|i| { let (pk, sk) = &keys()[*i]; (*pk, sign(&d, sk)) }).collect() }
}

fn tc_with(round: Round, entries: &[(usize, Round)]) -> TC {
    TC { round, votes: entries.iter().map(|(i, r)| { let (pk, sk) = &keys()[*i]; (*pk, sign(&digest_of(&[&round.to_le_bytes(), &r.to_le_bytes()]), sk), *r) }).collect() }
}

/// For certificates obtained from valid ones by every mutation the property lists (repeat a signer - also with a different
/// reported round -, use a non-member, drop below quorum, alter round / hash / a signature bit, move a signature to another
/// round or entry): whenever the REAL `verify` says Ok, the independent reference must agree that the certificate is valid.
#[test]
fn replay_c04_verify_implies_valid() {
    let committee = committee();
    let mut rng = StdRng::seed_from_u64(seed());
    let (outsider, outsider_sk) = generate_keypair(&mut StdRng::from_seed([9; 32]));
    let mut failures: Vec<String> = Vec::new();
    let mut h = [0u8; 32];
    rng.fill_bytes(&mut h);
    let hash = Digest(h);

    // ---- QCs
    let mut qcs: Vec<(String, QC)> = Vec::new();
    for signers in [vec![0, 1, 2], vec![0, 1, 2, 3], vec![0, 1], vec![0, 0, 1], vec![0, 1, 1, 2], vec![2, 2, 2]] {
        qcs.push((format!("signers {:?}", signers), valid_qc(hash.clone(), 3, &signers)));
    }
    let base = valid_qc(hash.clone(), 3, &[0, 1, 2]);
    let mut m = base.clone(); m.round = 4; qcs.push(("round altered".into(), m));
    let mut m = base.clone(); m.hash = Digest([1u8; 32]); qcs.push(("hash altered".into(), m));
    let mut m = base.clone(); m.votes[1].0 = outsider; qcs.push(("non-member with a member's signature".into(), m));
    let mut m = base.clone(); m.votes[2] = (outsider, sign(&digest_of(&[&hash.0, &3u64.to_le_bytes()]), &outsider_sk)); qcs.push(("non-member signing".into(), m));
    let mut m = base.clone(); let s0 = m.votes[0].1.clone(); m.votes[1].1 = s0; qcs.push(("signature moved to another signer".into(), m));
    let other_round = valid_qc(hash.clone(), 2, &[0, 1, 2]);
    let mut m = base.clone(); m.votes[0].1 = other_round.votes[0].1.clone(); qcs.push(("signature moved from another round".into(), m));
    for (what, qc) in &qcs {
        if qc.verify(&committee).is_ok() && !reference_valid_qc(qc, &committee) {
            failures.push(format!("QC [{}] accepted by QC::verify although it is not valid", what));
        }
    }

    // ---- TCs
    let mut tcs: Vec<(String, TC)> = Vec::new();
    tcs.push(("3 distinct signers".into(), tc_with(5, &[(0, 1), (1, 2), (2, 2)])));
    tcs.push(("2 signers".into(), tc_with(5, &[(0, 1), (1, 2)])));
    tcs.push(("one signer three times, same reported round".into(), tc_with(5, &[(0, 1), (0, 1), (0, 1)])));
    tcs.push(("one signer three times, different reported rounds".into(), tc_with(5, &[(0, 0), (0, 1), (0, 2)])));
    tcs.push(("signer repeated with another reported round".into(), tc_with(5, &[(0, 1), (1, 2), (1, 3)])));
    let mut m = tc_with(5, &[(0, 1), (1, 2), (2, 2)]); m.round = 6; tcs.push(("round altered".into(), m));
    let mut m = tc_with(5, &[(0, 1), (1, 2), (2, 2)]); m.votes[0].2 = 4; tcs.push(("reported round altered".into(), m));
    let mut m = tc_with(5, &[(0, 1), (1, 2), (2, 2)]); m.votes[1].0 = outsider; tcs.push(("non-member".into(), m));
    for (what, tc) in &tcs {
        if tc.verify(&committee).is_ok() && !reference_valid_tc(tc, &committee) {
            failures.push(format!("TC [{}] accepted by TC::verify although it is not valid", what));
        }
    }

    // ---- votes, timeouts and blocks
    let (pk0, sk0) = &keys()[0];
    let (pk1, _sk1) = &keys()[1];
    let v = Vote::new_from_key(hash.clone(), 3, *pk0, sk0);
    for (what, vote) in [("round altered", Vote { round: 4, ..v.clone() }), ("author altered", Vote { author: *pk1, ..v.clone() }),
                         ("hash altered", Vote { hash: Digest([2u8; 32]), ..v.clone() }), ("non-member", Vote { author: outsider, ..v.clone() })] {
        if vote.verify(&committee).is_ok() { failures.push(format!("Vote [{}] accepted by Vote::verify", what)); }
    }
    let t = Timeout::new_from_key(valid_qc(hash.clone(), 3, &[0, 1, 2]), 5, *pk0, sk0);
    for (what, to) in [("round altered", Timeout { round: 6, ..t.clone() }), ("author altered", Timeout { author: *pk1, ..t.clone() }),
                       ("high_qc below quorum", Timeout { high_qc: valid_qc(hash.clone(), 3, &[0, 1]), ..t.clone() }),
                       ("high_qc with repeated signer", Timeout { high_qc: valid_qc(hash.clone(), 3, &[0, 0, 1]), ..t.clone() })] {
        if to.verify(&committee).is_ok() { failures.push(format!("Timeout [{}] accepted by Timeout::verify", what)); }
    }
    let b = Block::new_from_key(valid_qc(hash.clone(), 3, &[0, 1, 2]), *pk0, 5, vec![Digest([3u8; 32])], sk0);
    let mut variants: Vec<(&str, Block)> = Vec::new();
    variants.push(("round altered", Block { round: 6, ..b.clone() }));
    variants.push(("author altered", Block { author: *pk1, ..b.clone() }));
    variants.push(("payload altered", Block { payload: vec![Digest([4u8; 32])], ..b.clone() }));
    variants.push(("qc below quorum", Block { qc: valid_qc(hash.clone(), 3, &[0, 1]), ..b.clone() }));
    variants.push(("tc made by one signer", Block { tc: Some(tc_with(4, &[(0, 0), (0, 1), (0, 2)])), ..b.clone() }));
    variants.push(("tc below quorum", Block { tc: Some(tc_with(4, &[(0, 1), (1, 2)])), ..b.clone() }));
    variants.push(("empty tc", Block { tc: Some(TC { round: 4, votes: Vec::new() }), ..b.clone() }));
    for (what, blk) in variants {
        // the qc's hash is part of the block digest: altering the qc invalidates the block signature as well, except when the hash is kept
        if blk.verify(&committee).is_ok() { failures.push(format!("Block [{}] accepted by Block::verify", what)); }
    }
    // a certificate that merely LOOKS like the genesis QC (zero hash) but names another round, or carries no signatures, is not the
    // genesis QC: blocks and timeouts embedding it must be rejected
    for round in [1u64, 4, 50] {
        let fake = QC { hash: Digest::default(), round, votes: Vec::new() };
        let blk = Block::new_from_key(fake.clone(), *pk0, round + 1, Vec::new(), sk0);
        if blk.verify(&committee).is_ok() { failures.push(format!("Block embedding an unsigned QC with the zero hash and round {} accepted by Block::verify", round)); }
        let to = Timeout::new_from_key(fake.clone(), round + 1, *pk0, sk0);
        if to.verify(&committee).is_ok() { failures.push(format!("Timeout embedding an unsigned QC with the zero hash and round {} accepted by Timeout::verify", round)); }
        if fake == QC::genesis() { failures.push(format!("an unsigned QC with the zero hash and round {} compares equal to the genesis QC", round)); }
    }
    let fake = QC { hash: Digest([1u8; 32]), round: 0, votes: Vec::new() };
    if fake == QC::genesis() { failures.push("a QC of round 0 with a non-zero hash compares equal to the genesis QC".into()); }
    // a block that directly extends its QC but carries a junk TC must be rejected too
    let direct = Block::new_from_key(valid_qc(hash.clone(), 4, &[0, 1, 2]), *pk0, 5, Vec::new(), sk0);
    let junk = Block { tc: Some(TC { round: 0, votes: Vec::new() }), ..direct.clone() };
    if direct.verify(&committee).is_err() { failures.push("valid block rejected (mirror broken?)".into()); }
    if junk.verify(&committee).is_ok() { failures.push("Block [directly extends its QC, empty TC attached] accepted by Block::verify".into()); }

    for f in failures.iter().take(6) { println!("FAILING-INPUT property=C04 {}", f); }
    assert!(failures.is_empty(), "C04 violated on the real code: {:?}", failures);
}

// ---------------------------------------------------------------------------------------------------------------
// C17: quorum arithmetic of the consensus committee, over many stake distributions
// ---------------------------------------------------------------------------------------------------------------
fn committee_with_stakes(stakes: &[u32]) -> (Committee, Vec<(PublicKey, SecretKey)>) {
    let mut rng = StdRng::from_seed([7; 32]);
    let ks: Vec<(PublicKey, SecretKey)> = stakes.iter().map(|_| generate_keypair(&mut rng)).collect();
    let info = ks.iter().zip(stakes.iter()).enumerate()
        .map(|(i, ((pk, _), s))| (*pk, *s, format!("127.0.0.1:{}", 100 + i).parse().unwrap())).collect();
    (Committee::new(info, 1), ks)
}

#[test]
fn replay_c17_quorum_arithmetic() {
    let mut rng = StdRng::seed_from_u64(seed());
    let mut failures = Vec::new();
    let mut cases: Vec<Vec<u32>> = vec![vec![1], vec![1, 1], vec![1, 1, 1, 1], vec![1; 5], vec![1; 6], vec![1; 7], vec![0, 1, 1, 1, 1], vec![100, 1, 1], vec![3, 3, 3], vec![0x7fff_fffe, 1]];
    for _ in 0..200 {
        let n = 1 + (rng.next_u32() % 8) as usize;
        cases.push((0..n).map(|_| rng.next_u32() % 50).collect());
    }
    for stakes in cases {
        let total: u64 = stakes.iter().map(|s| *s as u64).sum();
        if total == 0 || total >= (1u64 << 31) { continue; }
        let (c, ks) = committee_with_stakes(&stakes);
        let q = c.quorum_threshold() as u64;
        let f = (total - 1) / 3;
        if !(3 * q > 2 * total && q <= total - f && 2 * q - total > f) {
            failures.push(format!("stakes {:?}: quorum_threshold() = {} violates q > 2n/3, q <= n-f, 2q-n > f (n = {}, f = {})", stakes, q, total, f));
        }
        for ((pk, _), s) in ks.iter().zip(stakes.iter()) {
            if c.stake(pk) != *s { failures.push(format!("stakes {:?}: stake() of a member is {} instead of {}", stakes, c.stake(pk), s)); }
        }
        let (unknown, _) = generate_keypair(&mut StdRng::from_seed([8; 32]));
        if c.stake(&unknown) != 0 { failures.push(format!("stakes {:?}: unknown authority has stake {}", stakes, c.stake(&unknown))); }
    }
    for f in failures.iter().take(4) { println!("FAILING-INPUT property=C17 {}", f); }
    assert!(failures.is_empty(), "C17 violated on the real code ({} cases)", failures.len());
}

// ---------------------------------------------------------------------------------------------------------------
// C19: the real Aggregator against a reference model, over vote sequences with duplicates, several blocks and unequal stakes
// ---------------------------------------------------------------------------------------------------------------
#[test]
fn replay_c19_aggregator_vs_model() {
    use crate::aggregator::Aggregator;
    let mut rng = StdRng::seed_from_u64(seed() ^ 0x19);
    let mut failures = Vec::new();
    for case in 0..60 {
        let n = 4 + (rng.next_u32() % 3) as usize;
        let stakes: Vec<u32> = (0..n).map(|_| 1 + rng.next_u32() % 3).collect();
        let (c, ks) = committee_with_stakes(&stakes);
        let q = c.quorum_threshold();
        let mut agg = Aggregator::new(c.clone());
        // model: (round, block hash) -> (distinct voters, made?)
        let mut model: std::collections::HashMap<(Round, [u8; 32]), (Vec<usize>, bool)> = std::collections::HashMap::new();
        let mut trace = Vec::new();
        for _ in 0..(3 * n + 4) {
            let who = (rng.next_u32() as usize) % n;
            let round = 1 + (rng.next_u32() % 2) as Round;
            let block = [(rng.next_u32() % 2) as u8; 32];
            trace.push((who, round, block[0]));
            let vote = Vote::new_from_key(Digest(block), round, ks[who].0, &ks[who].1);
            let entry = model.entry((round, block)).or_insert((Vec::new(), false));
            let dup = entry.0.contains(&who);
            let res = agg.add_vote(vote);
            if dup {
                if res.is_ok() { failures.push(format!("case {} trace {:?}: a repeated vote of authority {} was accepted", case, trace, who)); break; }
                continue;
            }
            entry.0.push(who);
            let weight: u32 = entry.0.iter().map(|i| stakes[*i]).sum();
            let expect_qc = !entry.1 && weight >= q;
            match res {
                Ok(Some(qc)) => {
                    if !expect_qc { failures.push(format!("case {} stakes {:?} trace {:?}: QC assembled with distinct stake {} (threshold {}, already made: {})", case, stakes, trace, weight, q, entry.1)); break; }
                    entry.1 = true;
                    if qc.verify(&c).is_err() || qc.hash != Digest(block) || qc.round != round {
                        failures.push(format!("case {} trace {:?}: the assembled QC does not verify or names another block/round", case, trace)); break;
                    }
                }
                Ok(None) => if expect_qc { failures.push(format!("case {} stakes {:?} trace {:?}: no QC although distinct stake {} >= threshold {}", case, stakes, trace, weight, q)); break; },
                Err(e) => { failures.push(format!("case {} trace {:?}: a first vote was rejected: {}", case, trace, e)); break; }
            }
        }
    }
    for f in failures.iter().take(4) { println!("FAILING-INPUT property=C19 {}", f); }
    assert!(failures.is_empty(), "C19 violated on the real code ({} cases)", failures.len());
}

// ---------------------------------------------------------------------------------------------------------------
// C20: digests bind content, kinds never coincide, wire round trip keeps the digest
// ---------------------------------------------------------------------------------------------------------------
#[test]
fn replay_c20_digests_bind_content() {
    let mut rng = StdRng::seed_from_u64(seed() ^ 0x20);
    let (pk0, sk0) = &keys()[0];
    let (pk1, _) = &keys()[1];
    let mut failures = Vec::new();
    let d = |b: u8| Digest([b; 32]);
    let base_qc = valid_qc(d(9), 3, &[0, 1, 2]);
    let base = Block::new_from_key(base_qc.clone(), *pk0, 5, vec![d(1), d(2)], sk0);
    let mut variants: Vec<(&str, Block)> = vec![
        ("author", Block { author: *pk1, ..base.clone() }),
        ("round", Block { round: 6, ..base.clone() }),
        ("payload element", Block { payload: vec![d(1), d(3)], ..base.clone() }),
        ("payload order", Block { payload: vec![d(2), d(1)], ..base.clone() }),
        ("payload shorter", Block { payload: vec![d(1)], ..base.clone() }),
        ("parent", Block { qc: QC { hash: d(8), ..base_qc.clone() }, ..base.clone() }),
        // adjacent payload / parent boundary
        ("payload [1,2,9] with parent moved", Block { payload: vec![d(1), d(2), d(9)], qc: QC { hash: d(7), ..base_qc.clone() }, ..base.clone() }),
        ("payload [1] and parent 2", Block { payload: vec![d(1)], qc: QC { hash: d(2), ..base_qc.clone() }, ..base.clone() }),
    ];
    // boundary case on a block that extends genesis
    let g1 = Block::new_from_key(QC::genesis(), *pk0, 1, vec![d(5)], sk0);
    let g2 = Block { payload: Vec::new(), qc: QC { hash: d(5), round: 0, votes: Vec::new() }, ..g1.clone() };
    if g1.digest() == g2.digest() { failures.push("blocks (payload [X], genesis parent) and (empty payload, parent X) have the same digest".to_string()); }
    for (what, v) in variants.drain(..) {
        if v.digest() == base.digest() { failures.push(format!("two blocks differing in [{}] have the same digest", what)); }
    }
    let v = Vote::new_from_key(d(4), 7, *pk0, sk0);
    if (Vote { round: 8, ..v.clone() }).digest() == v.digest() || (Vote { hash: d(5), ..v.clone() }).digest() == v.digest() { failures.push("votes differing in round or hash share a digest".into()); }
    let t = Timeout::new_from_key(base_qc.clone(), 7, *pk0, sk0);
    if (Timeout { round: 8, ..t.clone() }).digest() == t.digest() || (Timeout { high_qc: QC { round: 4, ..base_qc.clone() }, ..t.clone() }).digest() == t.digest() { failures.push("timeouts differing in round or high-QC round share a digest".into()); }
    // every single byte of every digest-typed field and of the author key is bound (first, middle, LAST byte alike)
    for pos in 0..32usize {
        let bump = |x: &Digest| { let mut y = x.0; y[pos] ^= 0x5a; Digest(y) };
        let mut author = base.author.0; author[pos] ^= 0x5a;
        let byte_variants: Vec<(&str, Block)> = vec![
            ("payload[0]", Block { payload: vec![bump(&d(1)), d(2)], ..base.clone() }),
            ("payload[1]", Block { payload: vec![d(1), bump(&d(2))], ..base.clone() }),
            ("parent hash", Block { qc: QC { hash: bump(&base_qc.hash), ..base_qc.clone() }, ..base.clone() }),
            ("author", Block { author: PublicKey(author), ..base.clone() }),
        ];
        for (what, b) in byte_variants {
            if b.digest() == base.digest() { failures.push(format!("two blocks differing only in byte {} of [{}] have the same digest", pos, what)); }
        }
        if (Vote { hash: bump(&v.hash), ..v.clone() }).digest() == v.digest() { failures.push(format!("two votes differing only in byte {} of the block hash have the same digest", pos)); }
        let q = QC { hash: d(4), round: 7, votes: Vec::new() };
        if (QC { hash: bump(&q.hash), ..q.clone() }).digest() == q.digest() { failures.push(format!("two QCs differing only in byte {} of the block hash have the same digest", pos)); }
    }
    // kinds never coincide (same numeric content)
    for _ in 0..50 {
        let r = rng.next_u64() % 10;
        let q = QC { hash: d((r % 7) as u8), round: r, votes: Vec::new() };
        let vv = Vote { hash: q.hash.clone(), round: r, author: *pk0, signature: Signature::default() };
        let tt = Timeout { high_qc: q.clone(), round: r, author: *pk0, signature: Signature::default() };
        let bb = Block { qc: q.clone(), tc: None, author: *pk0, round: r, payload: Vec::new(), signature: Signature::default() };
        if vv.digest() != q.digest() { failures.push("a vote and the QC for the same block/round have different digests (QC signatures would not verify)".into()); }
        if tt.digest() == vv.digest() || bb.digest() == vv.digest() || bb.digest() == tt.digest() { failures.push(format!("digests of different kinds coincide (round {})", r)); }
    }
    // wire / store round trip
    let bytes = bincode::serialize(&base).unwrap();
    let back: Block = bincode::deserialize(&bytes).unwrap();
    if back.digest() != base.digest() || back.verify(&committee()).is_err() != base.verify(&committee()).is_err() { failures.push("a block changes digest or verification result through bincode".into()); }
    for f in failures.iter().take(4) { println!("FAILING-INPUT property=C20 {}", f); }
    assert!(failures.is_empty(), "C20 violated on the real code: {:?}", failures);
}

// ---------------------------------------------------------------------------------------------------------------
// Functions whose contracts are ASSUMED in the Verus units because their bodies are iterator-adapter chains
// (Committee::broadcast_addresses, TC::high_qc_rounds): the assumed contract, checked on the real code.
// bin/check runs this whenever the source text of one of them differs from the pinned baseline.
// ---------------------------------------------------------------------------------------------------------------
#[test]
fn replay_assumed_contracts_consensus() {
    let mut failures = Vec::new();
    for stakes in [vec![1u32, 1, 1, 1], vec![1, 2, 3], vec![5], vec![0, 1, 1, 1, 1, 2]] {
        let (c, ks) = committee_with_stakes(&stakes);
        for (me, _) in &ks {
            let got = c.broadcast_addresses(me);
            let mut names: Vec<PublicKey> = got.iter().map(|(n, _)| *n).collect();
            let before = names.len();
            names.sort();
            names.dedup();
            if names.len() != before { failures.push(format!("broadcast_addresses returns a member twice (committee of {})", stakes.len())); }
            if names.contains(me) { failures.push("broadcast_addresses contains the caller itself".to_string()); }
            if names.len() != stakes.len() - 1 { failures.push(format!("broadcast_addresses returns {} of the {} other members", names.len(), stakes.len() - 1)); }
            for (n, a) in &got {
                if c.address(n) != Some(*a) { failures.push("broadcast_addresses pairs a member with another member's address".to_string()); }
            }
        }
    }
    let tc = tc_with(5, &[(0, 3), (1, 0), (2, 4)]);
    if tc.high_qc_rounds() != vec![3, 0, 4] { failures.push(format!("TC::high_qc_rounds() = {:?}, the entries carry [3, 0, 4]", tc.high_qc_rounds())); }
    for f in failures.iter().take(4) { println!("FAILING-INPUT property=ASSUMED {}", f); }
    assert!(failures.is_empty(), "an assumed contract does not hold on the real code: {:?}", failures);
}

/// C09 mirror (real `RRLeaderElector` + `Committee::size`): for every committee - also with members of stake 0 and unequal stakes - every node
/// derives the same leader from the committee alone, and every window of n consecutive rounds has n distinct leaders covering ALL authorities.
#[test]
fn replay_c09_leader_rotation() {
    use crate::leader::RRLeaderElector;
    let mut failures = Vec::new();
    for stakes in [vec![1u32, 1, 1, 1], vec![1, 2, 3], vec![5], vec![0, 1, 1, 1, 1, 2], vec![0, 0, 3, 1], vec![1, 0, 1, 1, 1, 1, 0]] {
        let (c, ks) = committee_with_stakes(&stakes);
        let n = stakes.len();
        if c.size() != n { failures.push(format!("Committee::size() = {} for a committee of {} authorities (stakes {:?})", c.size(), n, stakes)); }
        let a = RRLeaderElector::new(c.clone());
        let b = RRLeaderElector::new(c.clone());
        for start in 0..(3 * n as u64 + 2) {
            let mut window: Vec<PublicKey> = (start..start + n as u64).map(|r| a.get_leader(r)).collect();
            if (start..start + n as u64).any(|r| a.get_leader(r) != b.get_leader(r)) { failures.push(format!("two electors over the same committee disagree near round {}", start)); }
            window.sort();
            window.dedup();
            let mut all: Vec<PublicKey> = ks.iter().map(|(k, _)| *k).collect();
            all.sort();
            if window != all {
                failures.push(format!("rounds {}..{} have {} distinct leaders, the committee has {} authorities (stakes {:?})", start, start + n as u64, window.len(), n, stakes));
                break;
            }
        }
    }
    for f in failures.iter().take(4) { println!("FAILING-INPUT property=C09 {}", f); }
    assert!(failures.is_empty(), "leader rotation does not hold on the real code: {:?}", failures);
}
