// Replay / failing-input search for the contracts on mempool::quorum_waiter::QuorumWaiter (C12) and mempool::config (C17).
// Compiled into the real crate only with `--features hotstuff_verif`.  The acknowledgements are hand-made oneshot
// channels, so their order is fully controlled and no network is involved.
use super::*;
use crate::common::keys;
use crate::config::Committee;
use bytes::Bytes;
use tokio::sync::mpsc::channel;
use tokio::sync::oneshot;
use tokio::time::{timeout, Duration};

fn committee_with_stakes(stakes: &[u32]) -> Committee {
    Committee::new(
        keys().into_iter().zip(stakes.iter()).enumerate()
            .map(|(i, ((name, _), s))| (name, *s, format!("127.0.0.1:{}", 200 + i).parse().unwrap(), format!("127.0.0.1:{}", 300 + i).parse().unwrap()))
            .collect(),
        1,
    )
}

/// Executable mirror of C12: for several batches handled by one QuorumWaiter and every acknowledgement order, a batch is
/// forwarded only when own stake + acknowledged stake reaches the quorum threshold - and then it is forwarded.
#[tokio::test]
async fn replay_c12_quorum_of_acks_per_batch() {
    let seed: u64 = std::env::var("VERIF_SEED").ok().and_then(|s| s.parse().ok()).unwrap_or(0);
    let mut x = seed.wrapping_mul(6364136223846793005).wrapping_add(1442695040888963407);
    let mut failures = Vec::new();
    for stakes in [vec![1u32, 1, 1, 1], vec![1, 2, 3, 1], vec![3, 1, 1, 1], vec![1, 1, 1, 4]] {
        let committee = committee_with_stakes(&stakes);
        let threshold = committee.quorum_threshold();
        let own = stakes[3];
        let (myself, _) = keys().pop().unwrap();
        let (tx_message, rx_message) = channel(10);
        let (tx_batch, mut rx_batch) = channel(10);
        QuorumWaiter::spawn(committee.clone(), own, rx_message, tx_batch);
        for b in 0..3u8 {
            let peers: Vec<(PublicKey, u32)> = keys().into_iter().map(|(k, _)| k).zip(stakes.iter().cloned()).filter(|(k, _)| *k != myself).collect();
            let mut senders = Vec::new();
            let mut handlers = Vec::new();
            for (name, stake) in &peers {
                let (s, r) = oneshot::channel();
                senders.push((s, *stake));
                handlers.push((*name, r));
            }
            // a seeded order of acknowledgements
            x = x.wrapping_mul(6364136223846793005).wrapping_add(1442695040888963407);
            let rot = (x >> 33) as usize % senders.len();
            senders.rotate_left(rot);
            tx_message.send(QuorumWaiterMessage { batch: vec![b; 4], handlers }).await.unwrap();
            let mut acked = own;
            let mut delivered = false;
            if acked >= threshold {
                // own stake alone is a quorum: may be delivered with the first ack or before
            }
            for (s, stake) in senders {
                if !delivered {
                    if let Ok(Some(_)) = timeout(Duration::from_millis(60), rx_batch.recv()).await {
                        delivered = true;
                        if acked < threshold {
                            failures.push(format!("stakes {:?}, batch #{}: forwarded with own+acknowledged stake {} < threshold {}", stakes, b, acked, threshold));
                        }
                    }
                }
                let _ = s.send(Bytes::from("Ack"));
                acked += stake;
            }
            if !delivered {
                match timeout(Duration::from_millis(500), rx_batch.recv()).await {
                    Ok(Some(got)) => if got != vec![b; 4] { failures.push(format!("stakes {:?}, batch #{}: a different batch was forwarded", stakes, b)); },
                    _ => failures.push(format!("stakes {:?}, batch #{}: not forwarded although every peer acknowledged", stakes, b)),
                }
            }
        }
    }
    for f in failures.iter().take(4) { println!("FAILING-INPUT property=C12 {}", f); }
    assert!(failures.is_empty(), "C12 violated on the real code: {:?}", failures);
}

/// C17 for the mempool committee: same threshold formula, unknown authority has zero stake.
#[test]
fn replay_c17_mempool_quorum_arithmetic() {
    let mut failures = Vec::new();
    for stakes in [vec![1u32, 1, 1, 1], vec![1, 1, 1, 2], vec![1, 1, 2, 2], vec![0, 1, 1, 1], vec![5, 1, 1, 1], vec![7, 7, 7, 8], vec![3, 3, 3, 0]] {
        let c = committee_with_stakes(&stakes);
        let total: u64 = stakes.iter().map(|s| *s as u64).sum();
        let q = c.quorum_threshold() as u64;
        let f = (total - 1) / 3;
        if !(q == 2 * total / 3 + 1 && 3 * q > 2 * total && q <= total - f && 2 * q - total > f) {
            failures.push(format!("mempool stakes {:?}: quorum_threshold() = {} (n = {}, f = {})", stakes, q, total, f));
        }
    }
    let c = committee_with_stakes(&[1, 1, 1, 1]);
    if c.stake(&PublicKey::default()) != 0 { failures.push("mempool: unknown authority has non-zero stake".into()); }
    for f in failures.iter().take(4) { println!("FAILING-INPUT property=C17 {}", f); }
    assert!(failures.is_empty(), "C17 violated on the real code: {:?}", failures);
}

/// Assumed contract of mempool `Committee::broadcast_addresses` (an iterator chain): every other member once, with its
/// mempool address - the basis of A-handlers (C12) and of the batch broadcast (C11).
#[test]
fn replay_assumed_contracts_mempool() {
    let mut failures = Vec::new();
    let c = committee_with_stakes(&[1, 2, 1, 3]);
    for (me, _) in keys() {
        let got = c.broadcast_addresses(&me);
        let mut names: Vec<PublicKey> = got.iter().map(|(n, _)| *n).collect();
        names.sort();
        names.dedup();
        if names.len() != got.len() { failures.push("mempool broadcast_addresses returns a member twice".to_string()); }
        if names.contains(&me) { failures.push("mempool broadcast_addresses contains the caller itself".to_string()); }
        if names.len() != 3 { failures.push(format!("mempool broadcast_addresses returns {} of the 3 other members", names.len())); }
        for (n, a) in &got {
            if c.mempool_address(n) != Some(*a) { failures.push("mempool broadcast_addresses pairs a member with the wrong address".to_string()); }
        }
    }
    for f in failures.iter().take(4) { println!("FAILING-INPUT property=ASSUMED {}", f); }
    assert!(failures.is_empty(), "an assumed contract does not hold on the real code: {:?}", failures);
}
