// Replay for the overflow obligation (C14) on network::reliable_sender::Connection::run.
// Compiled into the real crate only with `--features hotstuff_verif`.
use super::*;
use tokio::time::{timeout, Duration};

/// "Every message handed to the reliable sender is delivered ... no matter how often the connection fails":
/// the real `Connection::run` is driven through more than 65 535 consecutive failed connection attempts
/// (peer down).  The back-off delay is set to 0 ms only to compress the ~45 days this takes with the production
/// constants (200 ms doubling up to 60 s); the retry counter does not depend on the delay.  The connection task
/// must survive: if it dies, every buffered message is lost and its handle never resolves.
#[tokio::test]
async fn replay_c14_many_failed_connects() {
    // a port nobody listens on
    let address = "127.0.0.1:5951".parse::<SocketAddr>().unwrap();
    let (tx, rx) = channel(10);
    let (sender, _receiver) = oneshot::channel();
    tx.send(InnerMessage { data: Bytes::from("Hello, world!"), cancel_handler: sender }).await.unwrap();
    let task = tokio::spawn(async move {
        Connection { address, receiver: rx, retry_delay: 0, buffer: VecDeque::new() }.run().await;
    });
    // run() never returns; the only way the task can end is a panic
    let outcome = timeout(Duration::from_secs(150), task).await;
    let died = matches!(outcome, Ok(Err(_)));
    if died {
        println!("FAILING-INPUT property=C14 65536 consecutive failed connection attempts: Connection::run panics (u16 `retry` overflows), the buffered message is dropped and its handle never resolves");
    }
    assert!(!died, "the connection task died after repeated connection failures");
}

use tokio::net::TcpListener;
use tokio_util::codec::{Framed, LengthDelimitedCodec};

/// One session of a recording peer: accepts one connection, records every frame, replies `reply-to:<frame>` to the
/// first `acks` frames and then drops the connection WITHOUT answering frame number `acks` (if there is one).
async fn peer_session(listener: &TcpListener, acks: usize, log: &mut Vec<String>) {
    let (socket, _) = listener.accept().await.unwrap();
    let (mut writer, mut reader) = Framed::new(socket, LengthDelimitedCodec::new()).split();
    let mut n = 0;
    while let Some(Ok(frame)) = reader.next().await {
        let text = String::from_utf8_lossy(&frame).to_string();
        log.push(text.clone());
        if n == acks {
            return;
        }
        writer.send(Bytes::from(format!("reply-to:{}", text))).await.unwrap();
        n += 1;
    }
}

/// Executable mirror of C14 on the REAL `Connection` task: messages are handed over while the peer is down (`early`),
/// the peer comes up, answers `first_acks` frames and cuts the connection without answering the next one, `late` more
/// messages are handed over, the peer comes back and answers everything.  Checked: first deliveries happen in hand-over
/// order, every handle resolves with the reply to that very message, and a message whose handle was dropped before the
/// peer came up is not transmitted after a reconnect.
async fn scenario(port: u16, early: usize, first_acks: usize, late: usize, cancel: Option<usize>) -> Result<(), String> {
    let address = format!("127.0.0.1:{}", port).parse::<SocketAddr>().unwrap();
    let (tx, rx) = channel(100);
    tokio::spawn(async move {
        Connection { address, receiver: rx, retry_delay: 5, buffer: VecDeque::new() }.run().await;
    });
    let mut handles = Vec::new();
    let mut names = Vec::new();
    for i in 0..early {
        let (sender, receiver) = oneshot::channel();
        let name = format!("m{}", i);
        tx.send(InnerMessage { data: Bytes::from(name.clone()), cancel_handler: sender }).await.unwrap();
        // hand-overs are spread over several failed connection attempts
        tokio::time::sleep(Duration::from_millis(7)).await;
        handles.push(Some(receiver));
        names.push(name);
    }
    if let Some(c) = cancel {
        if c < handles.len() {
            handles[c] = None;      // the owner drops the handle: the message must stop being (re)transmitted
        }
    }
    tokio::time::sleep(Duration::from_millis(30)).await;
    let listener = TcpListener::bind(&address).await.map_err(|e| e.to_string())?;
    let mut log = Vec::new();
    let live: usize = handles.iter().filter(|h| h.is_some()).count();
    let cut = first_acks < live;
    let _ = timeout(Duration::from_millis(400), peer_session(&listener, if cut { first_acks } else { usize::MAX }, &mut log)).await;
    for i in 0..late {
        let (sender, receiver) = oneshot::channel();
        let name = format!("l{}", i);
        tx.send(InnerMessage { data: Bytes::from(name.clone()), cancel_handler: sender }).await.unwrap();
        handles.push(Some(receiver));
        names.push(name);
    }
    let _ = timeout(Duration::from_millis(600), peer_session(&listener, usize::MAX, &mut log)).await;
    // (1) first deliveries in hand-over order
    let mut firsts: Vec<String> = Vec::new();
    for f in log.iter() {
        if !firsts.contains(f) {
            firsts.push(f.clone());
        }
    }
    let expected: Vec<String> = names.iter().enumerate().filter(|(i, _)| handles[*i].is_some()).map(|(_, n)| n.clone()).collect();
    let firsts_live: Vec<String> = firsts.iter().filter(|f| expected.contains(f)).cloned().collect();
    if firsts_live != expected {
        return Err(format!("first deliveries {:?} are not the hand-over order {:?}", firsts_live, expected));
    }
    // (2) a cancelled message is not transmitted once its handle is gone (it was dropped before any connection existed)
    if let Some(c) = cancel {
        if c < early && log.contains(&names[c]) {
            return Err(format!("message {} was transmitted although its handle had been dropped before the peer came up", names[c]));
        }
    }
    // (3) every kept handle resolves with the reply to that very message
    for (i, h) in handles.into_iter().enumerate() {
        if let Some(h) = h {
            match timeout(Duration::from_millis(500), h).await {
                Ok(Ok(reply)) => {
                    let want = format!("reply-to:{}", names[i]);
                    if reply != Bytes::from(want.clone()) {
                        return Err(format!("handle of {} resolved with {:?}, expected {:?}", names[i], reply, want));
                    }
                }
                other => return Err(format!("handle of {} did not resolve with a reply: {:?}", names[i], other.map(|r| r.is_ok()))),
            }
        }
    }
    Ok(())
}

#[tokio::test]
async fn replay_c14_order_and_pairing() {
    let mut failures = Vec::new();
    // (early hand-overs while the peer is down, frames answered before the cut, late hand-overs, cancelled index)
    let cases: Vec<(usize, usize, usize, Option<usize>)> = vec![
        (1, 9, 0, None), (3, 9, 0, None), (4, 2, 2, None), (3, 0, 1, None), (5, 9, 2, Some(1)), (4, 1, 3, Some(0)), (6, 3, 0, Some(5)),
    ];
    for (n, (early, acks, late, cancel)) in cases.iter().enumerate() {
        if let Err(e) = scenario(5960 + n as u16, *early, *acks, *late, *cancel).await {
            failures.push(format!("{} hand-overs while the peer is down, peer cuts the connection after answering {} frames, {} later hand-overs, cancelled {:?}: {}", early, acks, late, cancel, e));
        }
    }
    for f in failures.iter().take(4) { println!("FAILING-INPUT property=C14 {}", f); }
    assert!(failures.is_empty(), "C14 violated on the real code in {} scenarios", failures.len());
}

/// `ReliableSender::broadcast` returns the cancel handlers "ordered as the input addresses vector": the mempool credits the
/// stake of name i to handler i (C12), so handler i must resolve with the reply of the peer at addresses[i] and of no other.
/// Real sender, real sockets: each peer answers every frame with its own port number.
#[tokio::test]
async fn replay_c12_broadcast_order() {
    let ports: Vec<u16> = (0..5).map(|i| 5980 + i).collect();
    for p in ports.iter() {
        let address = format!("127.0.0.1:{}", p).parse::<SocketAddr>().unwrap();
        let listener = TcpListener::bind(&address).await.unwrap();
        let tag = p.to_string();
        tokio::spawn(async move {
            loop {
                let (socket, _) = listener.accept().await.unwrap();
                let tag = tag.clone();
                tokio::spawn(async move {
                    let (mut writer, mut reader) = Framed::new(socket, LengthDelimitedCodec::new()).split();
                    while let Some(Ok(_)) = reader.next().await {
                        if writer.send(Bytes::from(tag.clone())).await.is_err() { break; }
                    }
                });
            }
        });
    }
    let mut failures = Vec::new();
    let mut sender = ReliableSender::new();
    for round in 0..12usize {
        // every rotation and a few sub-lists of the peers
        let mut order: Vec<u16> = ports.clone();
        order.rotate_left(round % ports.len());
        order.truncate(2 + round % 4);
        let addresses: Vec<SocketAddr> = order.iter().map(|p| format!("127.0.0.1:{}", p).parse().unwrap()).collect();
        let handlers = sender.broadcast(addresses, Bytes::from(format!("batch {}", round))).await;
        if handlers.len() != order.len() {
            failures.push(format!("broadcast to {:?} returned {} handlers", order, handlers.len()));
            continue;
        }
        for (i, h) in handlers.into_iter().enumerate() {
            match timeout(Duration::from_millis(1000), h).await {
                Ok(Ok(reply)) => {
                    if reply != Bytes::from(order[i].to_string()) {
                        failures.push(format!("broadcast to {:?}: handler #{} resolved with the acknowledgement of peer {:?}, not of peer {}", order, i, reply, order[i]));
                    }
                }
                _ => failures.push(format!("broadcast to {:?}: handler #{} did not resolve", order, i)),
            }
        }
    }
    for f in failures.iter().take(4) { println!("FAILING-INPUT property=C12 {}", f); }
    assert!(failures.is_empty(), "broadcast does not return its handlers in input order ({} findings)", failures.len());
}

/// C14 "at least once ... no matter how often the connection fails", the part no safety contract sees: after a failed connect the REAL
/// `Connection` task must come back even when the caller keeps handing over messages faster than the back-off (seed C14e re-armed the
/// back-off timer on every hand-over, so the task never reconnected under sustained traffic).
#[tokio::test]
async fn replay_c14_reconnect_under_sustained_traffic() {
    let port = 6480u16;
    let address = format!("127.0.0.1:{}", port).parse::<SocketAddr>().unwrap();
    let (tx, rx) = channel(1000);
    tokio::spawn(async move {
        Connection { address, receiver: rx, retry_delay: 100, buffer: VecDeque::new() }.run().await;
    });
    // first hand-over while nobody listens: the connect fails and the back-off (100 ms) starts
    let mut handles = Vec::new();
    let (s, r) = oneshot::channel();
    tx.send(InnerMessage { data: Bytes::from("m0"), cancel_handler: s }).await.unwrap();
    handles.push(r);
    tokio::time::sleep(Duration::from_millis(30)).await;
    let listener = TcpListener::bind(address).await.unwrap();
    let mut log = Vec::new();
    // the peer is up now; keep handing messages over every 20 ms (five times faster than the back-off) for as long as we wait (6 s)
    let feeder = tokio::spawn(async move {
        for i in 1..320 {
            let (s, r) = oneshot::channel();
            if tx.send(InnerMessage { data: Bytes::from(format!("m{}", i)), cancel_handler: s }).await.is_err() { break; }
            handles.push(r);
            tokio::time::sleep(Duration::from_millis(20)).await;
        }
        handles
    });
    let got = timeout(Duration::from_millis(6000), peer_session(&listener, 1, &mut log)).await;
    feeder.abort();     // (the handles die with the feeder; nothing is checked about them here)
    if got.is_err() || log.first().map(|s| s.as_str()) != Some("m0") {
        println!("FAILING-INPUT property=C14 connect fails once, the peer comes up 30 ms later, one message is handed over every 20 ms (back-off 100 ms): after 6 s the peer has received {:?} (expected the first message m0 first)", log.first());
        panic!("no reconnect under sustained traffic");
    }
}
