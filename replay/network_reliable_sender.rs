// Replay for the overflow obligation (C14) on network::reliable_sender::Connection::run.
// Compiled into the real crate only with `--features hotstuff_verif`.
use super::*;
use tokio::time::{timeout, Duration};

/// "Every message handed to the reliable sender is delivered ... no matter how often the connection fails":
/// the real `Connection::run` is driven through more than 65 535 consecutive failed connection attempts
/// (peer down).  The back-off delay is set to 0 ms only to compress the ~45 days this takes with the production
/// constants (200 ms doubling up to 60 s); the retry counter does not depend on the delay.  The connection task
/// must survive: if it dies, every buffered message is lost and its handle never resolves.
#[tokio::test]
async fn replay_c14_many_failed_connects() {
    // a port nobody listens on
    let address = "127.0.0.1:5951".parse::<SocketAddr>().unwrap();
    let (tx, rx) = channel(10);
    let (sender, _receiver) = oneshot::channel();
    tx.send(InnerMessage { data: Bytes::from("Hello, world!"), cancel_handler: sender }).await.unwrap();
    let task = tokio::spawn(async move {
        Connection { address, receiver: rx, retry_delay: 0, buffer: VecDeque::new() }.run().await;
    });
    // run() never returns; the only way the task can end is a panic
    let outcome = timeout(Duration::from_secs(150), task).await;
    let died = matches!(outcome, Ok(Err(_)));
    if died {
        println!("FAILING-INPUT property=C14 65536 consecutive failed connection attempts: Connection::run panics (u16 `retry` overflows), the buffered message is dropped and its handle never resolves");
    }
    assert!(!died, "the connection task died after repeated connection failures");
}
